#!/bin/sh
# Rebuilds the whole harness from /repo's current working tree (hooks on: -tags verif).
# Serialised with a lock so that concurrent checks do not trample each other's binaries.
# Exit 2 on any build trouble (never a verdict).
ROOT=$(cd "$(dirname "$0")" && pwd)
REPO=${VERIF_REPO:-/repo}
export GOFLAGS=-mod=mod GOPROXY=off GOSUMDB=off GOTOOLCHAIN=local CGO_ENABLED=0
mkdir -p "$ROOT/bin"
exec 9>"$ROOT/bin/.lock"
flock 9
cd "$ROOT/sim" || exit 2
# harness module: replace => $REPO, sums from the repository
if [ "$REPO" != "/repo" ]; then
  sed "s#=> /repo#=> $REPO#" go.mod > "$ROOT/bin/go.alt.mod" && cp go.sum "$ROOT/bin/go.alt.sum"
  MODFLAG="-modfile=$ROOT/bin/go.alt.mod"
else
  MODFLAG=""
fi
go build $MODFLAG -o "$ROOT/bin/mkoverlay" ./rt || exit 2
"$ROOT/bin/mkoverlay" "$ROOT/bin/overlay" || exit 2
OV="$ROOT/bin/overlay/overlay.json"
go build $MODFLAG -tags verif -overlay "$OV" -o "$ROOT/bin/simnode" ./node || exit 2
( cd "$REPO" && go build -tags verif -overlay "$OV" -o "$ROOT/bin/k8snetpolicy.sim" ./cmd/netpolicy ) || exit 2
go build $MODFLAG -o "$ROOT/bin/simctl" ./ctl || exit 2
exit 0
