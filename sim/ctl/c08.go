package main

import (
	"fmt"
	"path/filepath"
	"sort"
	"strings"
	"time"

	apisv1a "sigs.k8s.io/network-policy-api/apis/v1alpha1"
	"sigs.k8s.io/yaml"

	"verifsim/job"
)

// C08 — output deterministic and independent of input order.
//
// One case = one resource set R (and R' for diff). A baseline execution and K variants,
// each a fresh OS process with its own map-order schedule and one of: the same files,
// a random permutation/partition of the documents into files and directories, or a
// permutation of NetworkPolicy rules and peers. Oracle: same success status and
// byte-identical output for every command.

type c08Case struct {
	name     string
	docs     []Doc // R
	docs2    []Doc // R'
	relayout bool
	files    []FSEntry // verbatim mode: files of R (relative)
	files2   []FSEntry
	hasAdmin bool
	focus    []string
	evalQ    [][]string // eval command lines (worlds of bare pods only)
	spell    bool       // variants also spell the directory arguments differently (./a, a/, b/../a): same resources
}

type c08Variant struct {
	kind  string
	seed  uint64
	lay   Layout // nil in verbatim mode
	lay2  Layout
	docs  []Doc // possibly rule-permuted copies
	docs2 []Doc
}

func c08Steps(c *c08Case) []job.Step {
	var st []job.Step
	for _, f := range []string{"txt", "json", "csv", "md", "dot"} {
		st = append(st, job.Step{Kind: job.List, Dir: "a", Fmt: f})
		if !c.hasAdmin {
			st = append(st, job.Step{Kind: job.List, Dir: "a", Fmt: f, Exposure: true})
		}
	}
	for _, fw := range c.focus {
		st = append(st, job.Step{Kind: job.List, Dir: "a", Fmt: "txt", Focus: fw})
		if !c.hasAdmin {
			st = append(st, job.Step{Kind: job.List, Dir: "a", Fmt: "txt", Focus: fw, Exposure: true})
		}
	}
	st = append(st, job.Step{Kind: job.List, Dir: "a", Fmt: "txt", API: "infos"})
	st = append(st, job.Step{Kind: job.List, Dir: "a", Fmt: "csv", Stop: true})
	if len(c.focus) > 0 {
		st = append(st, job.Step{Kind: job.List, Dir: "a", Fmt: "dot", Focus: c.focus[0]}, job.Step{Kind: job.List, Dir: "a", Fmt: "json", Focus: c.focus[0]})
	}
	st = append(st, job.Step{Kind: job.Diff, Dir1: "a", Dir2: "b", Fmt: "txt", Stop: true})
	for _, f := range []string{"txt", "csv", "md", "dot"} {
		st = append(st, job.Step{Kind: job.Diff, Dir1: "a", Dir2: "b", Fmt: f})
		st = append(st, job.Step{Kind: job.Diff, Dir1: "b", Dir2: "a", Fmt: f})
	}
	return st
}

func stepDesc(s *job.Step) string {
	switch s.Kind {
	case job.List:
		d := "list -o " + s.Fmt
		if s.Exposure {
			d += " --exposure"
		}
		if s.Focus != "" {
			d += " --focusworkload " + s.Focus
		}
		if s.API == "infos" {
			d += " (ResourceInfos API)"
		}
		if s.Stop {
			d += " --fail"
		}
		return d
	case job.Diff:
		d := fmt.Sprintf("diff %s %s -o %s", s.Dir1, s.Dir2, s.Fmt)
		if s.Stop {
			d += " --fail"
		}
		return d
	}
	return s.Kind
}

func prefixFS(prefix string, files []FSEntry) []FSEntry {
	res := []FSEntry{{Path: prefix, Dir: true}}
	for _, f := range files {
		g := f
		g.Path = filepath.Join(prefix, f.Path)
		res = append(res, g)
	}
	return res
}

func (c *c08Case) run(v *c08Variant, steps []job.Step, keep bool) Run {
	var fs []FSEntry
	if c.relayout {
		fs = append(v.lay.fs("a", v.docs), v.lay2.fs("b", v.docs2)...)
	} else {
		fs = append(prefixFS("a", c.files), prefixFS("b", c.files2)...)
	}
	return Run{FS: fs, Job: &job.Job{ID: c.name + "/" + v.kind, MapSeed: v.seed, Steps: steps, KeepOut: keep}}
}

// permuteNetpolRules permutes spec.ingress / spec.egress and the from / to lists of a
// NetworkPolicy document (the parts the property lists as semantically unordered).
func permuteNetpolRules(r *rng, d Doc) (Doc, bool) {
	admin := d.Kind == "AdminNetworkPolicy" || d.Kind == "BaselineAdminNetworkPolicy"
	if d.Kind != "NetworkPolicy" && !admin {
		return d, false
	}
	var m map[string]interface{}
	if err := yaml.Unmarshal([]byte(d.Text), &m); err != nil {
		return d, false
	}
	spec, ok := m["spec"].(map[string]interface{})
	if !ok {
		return d, false
	}
	changed := false
	shuffle := func(l []interface{}) []interface{} {
		if len(l) < 2 {
			return l
		}
		p := r.perm(len(l))
		out := make([]interface{}, len(l))
		for i, j := range p {
			out[i] = l[j]
			if i != j {
				changed = true
			}
		}
		return out
	}
	for dir, pk := range map[string]string{"ingress": "from", "egress": "to"} {
		_ = dir
		_ = pk
	}
	for _, dp := range [][2]string{{"ingress", "from"}, {"egress", "to"}} {
		rules, ok := spec[dp[0]].([]interface{})
		if !ok {
			continue
		}
		for _, ru := range rules {
			if rm, ok := ru.(map[string]interface{}); ok {
				if peers, ok := rm[dp[1]].([]interface{}); ok {
					rm[dp[1]] = shuffle(peers)
				}
			}
		}
		if !admin {
			// the rules of an admin policy are ordered (the first match decides); the peers inside one rule are not
			spec[dp[0]] = shuffle(rules)
		}
	}
	if !changed {
		return d, false
	}
	b, err := yaml.Marshal(m)
	if err != nil {
		return d, false
	}
	d.Text = string(b)
	return d, true
}

func permuteAllRules(r *rng, docs []Doc) ([]Doc, bool) {
	out := make([]Doc, len(docs))
	any := false
	for i, d := range docs {
		nd, ch := permuteNetpolRules(r, d)
		out[i] = nd
		any = any || ch
	}
	return out, any
}

func (c *c08Case) variant(r *rng, k int) *c08Variant {
	v := &c08Variant{seed: r.u64() >> 1, docs: c.docs, docs2: c.docs2}
	if !c.relayout {
		v.kind = "schedule"
		return v
	}
	switch {
	case k == 0:
		v.kind = "baseline"
		v.lay, v.lay2 = canonicalLayout(len(c.docs)), canonicalLayout(len(c.docs2))
	case k%4 == 1:
		v.kind = "schedule"
		v.lay, v.lay2 = canonicalLayout(len(c.docs)), canonicalLayout(len(c.docs2))
	case k%4 == 3:
		v.kind = "rules"
		v.lay, v.lay2 = canonicalLayout(len(c.docs)), canonicalLayout(len(c.docs2))
		v.docs, _ = permuteAllRules(r, c.docs)
		v.docs2, _ = permuteAllRules(r, c.docs2)
		if r.chance(1, 2) {
			v.kind = "rules+layout"
			v.lay, v.lay2 = randomLayout(r, len(c.docs)), randomLayout(r, len(c.docs2))
		}
	default:
		v.kind = "layout"
		v.lay, v.lay2 = randomLayout(r, len(c.docs)), randomLayout(r, len(c.docs2))
	}
	return v
}

// editSet derives R' from R by one seeded edit.
func editSet(r *rng, docs []Doc, f *Features) []Doc {
	out := append([]Doc{}, docs...)
	if len(out) > 1 && r.chance(2, 3) {
		// drop one document, preferring policies
		var pol []int
		for i, d := range out {
			if strings.Contains(d.Kind, "NetworkPolicy") {
				pol = append(pol, i)
			}
		}
		i := r.intn(len(out))
		if len(pol) > 0 && r.chance(2, 3) {
			i = pick(r, pol)
		}
		out = append(out[:i], out[i+1:]...)
	}
	if f != nil && r.chance(1, 2) {
		out = append(out, randNetpol(r, f, pick(r, nsNames[:f.NNamespaces]), "npx"))
	}
	if f != nil && r.chance(1, 3) {
		// a bigger step between the two versions: workloads come and go, and a namespace is closed (or opened) as a
		// whole, so that some workloads keep no connection at all from one version to the next
		ns := pick(r, nsNames[:f.NNamespaces])
		for k, n := 0, r.between(1, 3); k < n; k++ {
			switch r.intn(4) {
			case 0: // a new workload
				out = append(out, workloadDoc(r, wl{ns, fmt.Sprintf("wnew%d", k), pick(r, []string{"Deployment", "StatefulSet", "DaemonSet"}), randLabelsF(r, f, 1), randContainerPorts(r)}))
			case 1: // a workload goes away
				var ws []int
				for i, d := range out {
					if d.Kind != "Pod" && d.Kind != "Namespace" && d.Kind != "Service" && d.Kind != "Ingress" && d.Kind != "Route" && !strings.Contains(d.Kind, "NetworkPolicy") {
						ws = append(ws, i)
					}
				}
				if len(ws) > 1 {
					i := pick(r, ws)
					out = append(out[:i:i], out[i+1:]...)
				}
			case 2: // the namespace is closed: nothing in, nothing out
				out = append(out, Doc{Kind: "NetworkPolicy", NS: ns, Name: "np-closed", Text: "apiVersion: networking.k8s.io/v1\nkind: NetworkPolicy\nmetadata:\n  name: np-closed\n  namespace: " + ns +
					"\nspec:\n  podSelector: {}\n  policyTypes:\n  - Ingress\n  - Egress\n"})
			default: // every policy of the namespace is withdrawn
				var kept []Doc
				for _, d := range out {
					if !(d.Kind == "NetworkPolicy" && d.NS == ns) {
						kept = append(kept, d)
					}
				}
				out = kept
			}
		}
	}
	return out
}

type c08Checker struct{}

func (c08Checker) recheck(r *Replay, res []*Result) Verdict {
	if len(res) != 2 {
		return Verdict{Infra: "C08 replay needs two runs"}
	}
	if r.Runs[0].CLI != nil {
		a, b := res[0], res[1]
		dg := []string{fmt.Sprintf("exit=%d out=%s", a.Exit, sha8(a.Stdout)), fmt.Sprintf("exit=%d out=%s", b.Exit, sha8(b.Stdout))}
		cmd := "k8snetpolicy " + strings.Join(r.Runs[0].CLI, " ")
		if a.Exit != b.Exit {
			return Verdict{Violated: true, Desc: fmt.Sprintf("%s: exit status %d vs %d", cmd, a.Exit, b.Exit), Digests: dg}
		}
		if a.Stdout != b.Stdout {
			n, x, y := firstDiffLine(a.Stdout, b.Stdout)
			return Verdict{Violated: true, Desc: fmt.Sprintf("%s: output differs at line %d: %q vs %q", cmd, n, x, y), Digests: dg}
		}
		return Verdict{Desc: "outputs identical", Digests: []string{"same"}}
	}
	for i, x := range res {
		if x.Trace == nil || len(x.Trace.Events) == 0 {
			return Verdict{Infra: fmt.Sprintf("run %d produced no trace (exit %d): %s", i, x.Exit, tail(x.Stderr, 400))}
		}
	}
	ea, eb := res[0].Trace.Events, res[1].Trace.Events
	if len(ea) != len(eb) {
		return Verdict{Violated: true, Desc: "the two executions completed a different number of commands", Digests: []string{fmt.Sprint(len(ea)), fmt.Sprint(len(eb))}}
	}
	steps := r.Runs[0].Job.Steps
	for k := range ea {
		a, b := &ea[k], &eb[k]
		dg := []string{fmt.Sprintf("%d:%s", k, evDigest(a)), fmt.Sprintf("%d:%s", k, evDigest(b))}
		cmd := stepDesc(&steps[a.Step])
		if a.Panic != nil || b.Panic != nil {
			// a crash is C12's business; for C08 it only counts if the two runs disagree
			if (a.Panic != nil) != (b.Panic != nil) {
				return Verdict{Violated: true, Desc: cmd + ": one schedule/layout panics, the other does not", Digests: dg}
			}
			continue
		}
		if a.OK != b.OK {
			return Verdict{Violated: true, Desc: fmt.Sprintf("%s: success status differs: %t (%s) vs %t (%s)", cmd, a.OK, a.Err, b.OK, b.Err), Digests: dg}
		}
		if a.OutSha != b.OutSha {
			n, x, y := firstDiffLine(a.Out, b.Out)
			return Verdict{Violated: true, Desc: fmt.Sprintf("%s: output differs at line %d: %q vs %q", cmd, n, x, y), Digests: dg}
		}
	}
	return Verdict{Desc: "outputs identical", Digests: []string{"same"}}
}

func sha8(s string) string { return shortHash(s) }

func tail(s string, n int) string {
	if len(s) > n {
		return s[len(s)-n:]
	}
	return s
}

func init() { checkers["C08"] = c08Checker{} }

type c08Stats struct {
	execs, cases, variants, steps, evals int
	nontrivial                           map[string]bool // case digests with >= 2 distinct peer orders observed
	peerOrders                           map[string]bool
	byKind                               map[string]int
	byFmt                                map[string]int
	maxDraws                             uint64
	samples                              []interface{}
}

func caseDigest(c *c08Case) string {
	h := uint64(7)
	for _, d := range c.docs {
		h = hashStr(h, d.Text)
	}
	for _, f := range c.files {
		h = hashStr(h, f.Path+"\x00"+f.Text)
	}
	return fmt.Sprintf("%016x", h)
}

// c08Mismatch is the first (variant, step) of a case whose event differs from the baseline's.
type c08Mismatch struct {
	c       *c08Case
	base    *c08Variant
	v       *c08Variant
	step    job.Step
	cli     []string // set for a command through the CLI process (then step is unused)
	cliBase []string // the baseline's spelling of that command line
}

// respell rewrites the directory arguments of a command line into another spelling of the same path.
func respell(q []string, k int) []string {
	out := append([]string{}, q...)
	for i := 0; i+1 < len(out); i++ {
		switch out[i] {
		case "--dirpath", "--dir1", "--dir2":
			d := out[i+1]
			switch (k / 2) % 3 {
			case 0:
				out[i+1] = "./" + d
			case 1:
				out[i+1] = d + "/"
			default:
				out[i+1] = d + "/../" + d
			}
		}
	}
	return out
}

func (m *c08Mismatch) cmdDesc() string {
	if m.cli != nil {
		return "k8snetpolicy " + strings.Join(m.cli, " ")
	}
	return stepDesc(&m.step)
}

// resultsDiffer compares two single-command executions (node job or CLI process).
func resultsDiffer(a, b *Result) bool {
	if a.Trace != nil && b.Trace != nil {
		if len(a.Trace.Events) != 1 || len(b.Trace.Events) != 1 {
			return false
		}
		return eventsDiffer(&a.Trace.Events[0], &b.Trace.Events[0])
	}
	if a.Trace != nil || b.Trace != nil {
		return false
	}
	return a.Exit != b.Exit || a.Stdout != b.Stdout
}

func eventsDiffer(a, b *job.Event) bool {
	if (a.Panic != nil) != (b.Panic != nil) {
		return true
	}
	if a.Panic != nil {
		return false
	}
	return a.OK != b.OK || a.OutSha != b.OutSha
}

func runC08(tier string, seed uint64) int {
	rp := newReport("C08", tier, seed)
	nGen, nCorpus, K := 120, 16, 10
	if tier == "thorough" {
		nGen, nCorpus, K = 4000, 1000000, 24
	}
	if v := envInt("VERIF_C08_GEN"); v > 0 {
		nGen = v
	}
	if v := envInt("VERIF_C08_K"); v > 0 {
		K = v
	}
	corpus, err := loadCorpus(filepath.Join(repoRoot, "tests"))
	if err != nil {
		infra("corpus: %v", err)
	}
	var cases []*c08Case
	// corpus cases: a seeded sample in quick, everything in thorough
	cr := sub(seed, "C08", "corpus")
	order := cr.perm(len(corpus))
	if nCorpus > len(corpus) {
		nCorpus = len(corpus)
	}
	pickIdx := append([]int{}, order[:nCorpus]...)
	sort.Ints(pickIdx)
	for _, i := range pickIdx {
		cd := &corpus[i]
		r := sub(seed, "C08", "corpus", cd.Name)
		c := &c08Case{name: "corpus:" + cd.Name, relayout: cd.Relayout && !hasShadowing(cd.Docs)}
		for _, d := range cd.Docs {
			if d.Kind == "AdminNetworkPolicy" || d.Kind == "BaselineAdminNetworkPolicy" || strings.HasSuffix(d.Kind, "List") {
				// Lists may hold admin policies; exposure refuses those. Decide by text.
				if strings.Contains(d.Text, "AdminNetworkPolicy") {
					c.hasAdmin = true
				}
			}
		}
		if c.relayout {
			c.docs = cd.Docs
			c.docs2 = editSet(r, cd.Docs, nil)
		} else {
			c.files = cd.Files
			c.files2 = cd.Files
			if len(cd.Files) > 1 {
				k := r.intn(len(cd.Files))
				c.files2 = append(append([]FSEntry{}, cd.Files[:k]...), cd.Files[k+1:]...)
			}
		}
		c.focus = corpusFocus(r, cd)
		cases = append(cases, c)
	}
	for i := 0; i < nGen; i++ {
		r := sub(seed, "C08", "gen", i)
		f := drawFeatures(r)
		if i%10 == 3 {
			// one world in ten is ingress-heavy whatever was drawn: few label values, so that one service fronts several workloads
			f.Ingress, f.IngressHeavy, f.Broad = true, true, true
			if f.NWorkloads < 4 {
				f.NWorkloads = 4
			}
		}
		w := genWorld(r, f)
		if i%5 == 4 {
			// eval world: bare pods, every namespace has an object, several admin policies
			f.PodsOnly, f.AllNsObjs, f.NANPs, f.BANP = true, true, r.between(2, 4), r.chance(1, 2)
			w = genWorld(r, f)
		}
		if i%6 == 2 {
			w.Docs = exported(r, w.Docs) // dumped from a cluster
		}
		if i%15 == 7 && len(w.Workloads) > 0 {
			// a world the analysis cannot answer: a rule that allows everything next to a rule whose named port
			// meets an address. Every command fails; it must fail in every order of rules, files and map slots.
			wn := pick(r, w.Workloads)
			w.Docs = append(w.Docs, Doc{Kind: "NetworkPolicy", NS: wn[:strings.Index(wn, "/")], Name: "np-unanswerable", Text: "apiVersion: networking.k8s.io/v1\nkind: NetworkPolicy\nmetadata:\n  name: np-unanswerable\n  namespace: " +
				wn[:strings.Index(wn, "/")] + "\nspec:\n  podSelector: {}\n  policyTypes:\n  - Egress\n  egress:\n  - {}\n  - to:\n    - ipBlock:\n        cidr: 10.0.0.0/8\n    ports:\n    - port: dns\n      protocol: UDP\n"})
		}
		if i%15 == 11 && len(w.Workloads) > 0 {
			// another world without an answer: a rule peer that says nothing (neither selector nor ipBlock) next to one
			// that selects every address. Again every command must fail, wherever the empty peer stands.
			wn := pick(r, w.Workloads)
			ns := wn[:strings.Index(wn, "/")]
			w.Docs = append(w.Docs, Doc{Kind: "NetworkPolicy", NS: ns, Name: "np-emptypeer", Text: "apiVersion: networking.k8s.io/v1\nkind: NetworkPolicy\nmetadata:\n  name: np-emptypeer\n  namespace: " +
				ns + "\nspec:\n  podSelector: {}\n  policyTypes:\n  - Ingress\n  ingress:\n  - from:\n    - ipBlock:\n        cidr: 0.0.0.0/0\n    - {}\n    - namespaceSelector: {}\n"})
		}
		if i%15 == 14 && len(w.Pods) > 0 {
			// an eval world without an answer: of two ingress rules one lets everybody in and the other has a peer that says
			// nothing. The question about any pod of that namespace fails, whichever rule is written first.
			pn := pick(r, w.Pods)
			ns := pn[:strings.Index(pn, "/")]
			w.Docs = append(w.Docs, Doc{Kind: "NetworkPolicy", NS: ns, Name: "np-halfvalid", Text: "apiVersion: networking.k8s.io/v1\nkind: NetworkPolicy\nmetadata:\n  name: np-halfvalid\n  namespace: " +
				ns + "\nspec:\n  podSelector: {}\n  policyTypes:\n  - Ingress\n  ingress:\n  - {}\n  - from:\n    - {}\n"})
		}
		if (i%15 == 5 || i%15 == 9) && len(w.Workloads)+len(w.Pods) > 0 {
			// an admin policy without an answer: one rule whose peers are "every namespace" and a peer that says nothing
			// (neither namespaces nor pods). Every command and every question must fail, wherever that peer stands.
			used := map[string]bool{}
			for _, d := range w.Docs {
				if d.Kind == "AdminNetworkPolicy" {
					var a apisv1a.AdminNetworkPolicy
					if yaml.Unmarshal([]byte(d.Text), &a) == nil {
						used[fmt.Sprint(a.Spec.Priority)] = true
					}
				}
			}
			prio := 500
			for used[fmt.Sprint(prio)] {
				prio++
			}
			dirn, pk := "ingress", "from"
			if r.chance(1, 2) {
				dirn, pk = "egress", "to"
			}
			w.Docs = append(w.Docs, Doc{Kind: "AdminNetworkPolicy", Name: "anp-halfpeer", Text: fmt.Sprintf("apiVersion: policy.networking.k8s.io/v1alpha1\nkind: AdminNetworkPolicy\nmetadata:\n  name: anp-halfpeer\nspec:\n  priority: %d\n  subject:\n    namespaces: {}\n  %s:\n  - name: r0\n    action: Allow\n    %s:\n    - namespaces: {}\n    - {}\n", prio, dirn, pk)})
			w.HasAdmin = true
		}
		c := &c08Case{name: fmt.Sprintf("gen:%d", i), relayout: true, docs: w.Docs, docs2: editSet(r, w.Docs, &f), hasAdmin: w.HasAdmin}
		if f.PodsOnly && len(w.Pods) >= 2 {
			for q := 0; q < 4; q++ {
				a, b := pick(r, w.Pods), pick(r, w.Pods)
				an, ap := splitKey(a)
				bn, bp := splitKey(b)
				c.evalQ = append(c.evalQ, []string{"eval", "--dirpath", "a", "-s", ap, "-n", an, "-d", bp, "--destination-namespace", bn,
					"-p", fmt.Sprint(pick(r, portNums)), "--protocol", strings.ToLower(string(pick(r, protos)))})
			}
		}
		if len(w.Workloads) > 0 {
			wn := pick(r, w.Workloads)
			c.focus = []string{wn[strings.Index(wn, "/")+1:], "nosuchworkload"}
			if r.chance(1, 2) {
				c.focus[0] = wn
			}
		}
		if i%7 == 5 {
			// namespaces whose names begin with a digit: as text they fall between the address ranges
			m := map[string]string{"alpha": "3scale", "gamma": "1pw"}
			c.docs, c.docs2 = renameNamespaces(c.docs, m), renameNamespaces(c.docs2, m)
			for k := range c.focus {
				c.focus[k] = renameWords(c.focus[k], m)
			}
			for k := range c.evalQ {
				for x := range c.evalQ[k] {
					c.evalQ[k][x] = renameWords(c.evalQ[k][x], m)
				}
			}
		}
		cases = append(cases, c)
	}

	nodeTimeout = 15 * time.Minute
	// every case is also confirmed at the process level: the separately linked binary, seeded through
	// VERIFMAPSEED, runs one list and one diff command under the baseline and under two variants
	for ci, c := range cases {
		r := sub(seed, "C08", "cli", c.name)
		lf := pick(r, []string{"txt", "json", "csv", "md", "dot"})
		l := []string{"list", "--dirpath", "a", "-o", lf, "-q"}
		if !c.hasAdmin && r.chance(1, 2) {
			l = append(l, "--exposure")
		}
		cases[ci].evalQ = append(cases[ci].evalQ, l, []string{"diff", "--dir1", "a", "--dir2", "b", "-o", pick(r, []string{"txt", "csv", "md", "dot"}), "-q"})
		cases[ci].spell = r.chance(1, 2)
	}
	st := &c08Stats{nontrivial: map[string]bool{}, peerOrders: map[string]bool{}, byKind: map[string]int{}, byFmt: map[string]int{}}
	type caseOut struct {
		mm      *c08Mismatch
		orders  map[string]bool
		infra   string
		execs   int
		steps   int
		byKind  map[string]int
		draws   uint64
		variant []string
		evals   int
	}
	outs := make([]caseOut, len(cases))
	parallel(len(cases), workers, func(ci int) {
		c := cases[ci]
		o := &outs[ci]
		o.orders = map[string]bool{}
		o.byKind = map[string]int{}
		r := sub(seed, "C08", "variants", c.name)
		steps := c08Steps(c)
		var base *c08Variant
		var baseEv []job.Event
		kCase := K
		for k := 0; k <= kCase; k++ {
			v := c.variant(r, k)
			if k == 0 {
				v.kind = "baseline"
				base = v
			}
			run := c.run(v, steps, false)
			t0 := time.Now()
			res := execute(&run)
			if k == 0 && time.Since(t0) > 10*time.Second {
				kCase = 3 // a very heavy directory (tens of thousands of connections): fewer variants
			}
			o.execs++
			if res.Infra != "" {
				o.infra = res.Infra
				return
			}
			if res.Trace == nil || res.Trace.Fail != "" || len(res.Trace.Events) != len(steps) {
				// the process died outside recover (fatal error) or misbehaved: C12 looks at
				// crashes; for C08 a death must at least be consistent across schedules.
				if k == 0 {
					o.infra = fmt.Sprintf("baseline of %s did not complete (exit %d): %s", c.name, res.Exit, tail(res.Stderr, 300))
					return
				}
				o.infra = fmt.Sprintf("variant %d of %s did not complete (exit %d): %s", k, c.name, res.Exit, tail(res.Stderr, 300))
				return
			}
			o.byKind[v.kind]++
			for _, lf := range append(append(Layout{}, v.lay...), v.lay2...) {
				if lf.Dress != 0 && !lf.JSON && !lf.List {
					o.byKind["probe: executions with a dressed file (comment header / doubled separators / CRLF)"]++
					break
				}
			}
			if strings.HasPrefix(c.name, "gen:") && len(c.docs) > 0 && strings.Contains(c.docs[0].Text+c.docs[len(c.docs)-1].Text, "3scale") {
				o.byKind["probe: executions in a world with digit-leading namespace names"]++
			}
			o.steps += len(steps)
			for i := range res.Trace.Events {
				e := &res.Trace.Events[i]
				if e.PeerSha != "" && steps[i].Kind == job.List && i == 0 {
					o.orders[e.PeerSha] = true
				}
				if e.Draws > o.draws {
					o.draws = e.Draws
				}
			}
			if k == 0 {
				baseEv = res.Trace.Events
				continue
			}
			if o.mm == nil {
				for i := range steps {
					if eventsDiffer(&baseEv[i], &res.Trace.Events[i]) {
						o.mm = &c08Mismatch{c: c, base: base, v: v, step: steps[i]}
						break
					}
				}
			}
		}
		// eval through the CLI entry point (its directory loader inserts objects in document order)
		if len(c.evalQ) > 0 && o.mm == nil {
			var baseOut []string
			kMax := K
			if !c.relayout || len(c.evalQ) <= 2 {
				kMax = 4 // list/diff only: baseline and two variants
			}
			for step := 0; o.mm == nil; step++ {
				// variants 0, 3, 4, 7, 8, ...: the baseline, then rule/peer permutations and file layouts in turn
				k := 2 * step
				if step%2 == 1 {
					k++
				}
				if k > kMax {
					break
				}
				rv := sub(seed, "C08", "variants", c.name)
				var v *c08Variant
				for kk := 0; kk <= k; kk++ {
					v = c.variant(rv, kk) // same stream as above: variant k is the same layout and seed
				}
				if k == 0 {
					v.kind = "baseline"
				}
				for qi, q := range c.evalQ {
					run := c.run(v, nil, false)
					if c.spell && k > 0 {
						q = respell(q, k)
					}
					run.Job, run.CLI, run.Seed, run.RealEx = nil, q, v.seed, true
					res := execute(&run)
					o.execs++
					if res.Infra != "" {
						o.infra = res.Infra
						return
					}
					d := fmt.Sprintf("%d\x00%s", res.Exit, res.Stdout)
					if k == 0 {
						baseOut = append(baseOut, d)
					} else if baseOut[qi] != d && o.mm == nil {
						o.mm = &c08Mismatch{c: c, base: base, v: v, cli: q, cliBase: c.evalQ[qi]}
					}
				}
				o.evals += len(c.evalQ)
			}
		}
	})
	var mismatches []*c08Mismatch
	for ci := range outs {
		o := &outs[ci]
		if o.infra != "" {
			infra("C08: %s", o.infra)
		}
		st.execs += o.execs
		st.cases++
		st.steps += o.steps + o.evals
		st.evals += o.evals
		for k, n := range o.byKind {
			st.byKind[k] += n
		}
		if len(o.orders) >= 2 {
			st.nontrivial[caseDigest(cases[ci])] = true
		}
		for k := range o.orders {
			st.peerOrders[k] = true
		}
		if o.draws > st.maxDraws {
			st.maxDraws = o.draws
		}
		if o.mm != nil {
			mismatches = append(mismatches, o.mm)
		}
	}
	reported, tried := 0, 0
	for _, mm := range mismatches {
		if reported >= 3 || tried >= 8 {
			fmt.Printf("note: %d further mismatching cases not minimised (3 violations already reported)\n", len(mismatches)-reported)
			break
		}
		rep := c08Minimise(mm, seed)
		if rep == nil {
			infra("C08: mismatch in %s (%s, %s) did not reproduce during minimisation", mm.c.name, mm.v.kind, mm.cmdDesc())
		}
		if ok, why := confirm(rep, 3); !ok {
			infra("C08: witness for %s does not replay: %s", mm.c.name, why)
		}
		if rp.violation(rep) {
			reported++
		} else if knownFinding(rp.findings, rep.Property, rep.Sig) == nil {
			tried++ // a repeat of a signature already reported in this run (listed findings never count)
		}
	}
	if selftestDivergence != nil {
		run := *selftestDivergence
		j := *run.Job
		j.KeepOut = true
		run.Job = &j
		rep := &Replay{Property: "C08", Clause: "same resources, different output", Seed: seed, Scenario: "self-test:" + j.ID, Runs: []Run{run, run}, Repeat: 12,
			Detail: map[string]string{"variation": "none: the same files under the same seeded schedule, executed twice"}}
		if _, v := runReplay(rep); v.Violated {
			rep.Note = "[same schedule] " + v.Desc
			rep.Observed = v.Digests
			rep.Sig = "c08:" + shortHash("unseeded|"+normaliseDesc(v.Desc))
			rp.violation(rep)
		} else {
			fmt.Printf("note: the self-test divergence did not show again in 12 repeats\n")
		}
	}
	canaryHits := rp.canaries()
	// evidence
	for i := 0; i < len(cases) && len(st.samples) < 3; i += 1 + len(cases)/3 {
		c := cases[i]
		s := map[string]interface{}{"case": c.name, "documents": len(c.docs), "kinds": docsKinds(c.docs), "relayout": c.relayout, "variants": K, "commands": len(c08Steps(c))}
		if c.relayout && len(c.docs) > 0 {
			v := c.variant(sub(seed, "sample", c.name), 2)
			s["example_layout"] = v.lay
			s["first_document"] = c.docs[0].Text
		}
		st.samples = append(st.samples, s)
	}
	ev := &Evidence{PropertyID: "C08", Tier: tier, Seed: int64(seed), Level: "exploration", WallS: sinceS(rp.start), Violations: rp.violations,
		Coverage: map[string]interface{}{
			"evaluations":         st.execs,
			"distinct_nontrivial": len(st.nontrivial),
			"rule": "one evaluation = one OS process running every command (list x 5 formats x exposure, focus, ResourceInfos API, diff x 4 formats x 2 directions) under one seeded map-order schedule and one file layout; " +
				"a case (resource set) is non-trivial when at least two distinct peer orders were observed for it across its schedules, distinct by content hash of its documents",
			"samples":                     st.samples,
			"cases":                       st.cases,
			"commands_compared":           st.steps,
			"cli_process_commands":        st.evals,
			"variants_by_kind":            st.byKind,
			"distinct_peer_orders":        len(st.peerOrders),
			"max_map_draws_per_run":       st.maxDraws,
			"mismatching_cases":           len(mismatches),
			"known_findings_observed":     len(rp.known),
			"canary_witnesses_reproduced": canaryHits,
			"runs_per_hour":               perHour(st.execs, rp.start),
			"fault_kinds":                 map[string]int{"map-order schedule change": st.byKind["schedule"], "document reorder/re-partition": st.byKind["layout"] + st.byKind["rules+layout"], "rule/peer permutation": st.byKind["rules"] + st.byKind["rules+layout"]},
			"simulated_time":              "none: no clock, timer or deadline is reachable from the directory flows",
			"real_components":             "all of /repo (connlist, diff, eval, parser, fsscanner, formatters), its dependencies, kernel file system, Go 1.23.5 runtime",
			"stubbed_components":          "none; the runtime's map-randomness draws are redirected to the simulator's seeded stream",
		},
		Assumptions: []string{
			"map orders explored are those of the Go 1.23 classic hash map (hash seed, start bucket, start offset drawn from the seeded stream)",
			"resource sets have unique (kind, namespace, name); workloads of different kinds never share a name in one namespace (known finding, see known_findings.txt); pods of one owner are identical",
			"only NetworkPolicy rules and peers are permuted; ports, In-value lists and ANP rules are not",
			"error texts and log output are not compared, only success status and the output string",
		}}
	writeEvidence(ev)
	fmt.Printf("C08 %s seed=%d: %d cases, %d executions, %d commands compared, %d mismatching cases, %d violations, %d known findings, %.1fs\n",
		tier, seed, st.cases, st.execs, st.steps, len(mismatches), rp.violations, len(rp.known), sinceS(rp.start))
	return rp.exitCode()
}

// hasShadowing reports the excluded input feature: two workloads whose synthetic pods
// get the same name (same workload name under different kinds, or a bare pod named like
// a synthetic pod).
func hasShadowing(docs []Doc) bool {
	seen := map[string]bool{}
	for _, d := range docs {
		var names []string
		switch d.Kind {
		case "Deployment", "ReplicaSet", "StatefulSet", "DaemonSet", "Job", "CronJob", "ReplicationController":
			names = []string{d.Name + "-1", d.Name + "-2"}
		case "Pod":
			names = []string{d.Name}
		default:
			if strings.HasSuffix(d.Kind, "List") {
				return true // do not look inside lists; be conservative
			}
			continue
		}
		ns := d.NS
		if ns == "" {
			ns = "default"
		}
		for _, n := range names {
			k := ns + "/" + n
			if seen[k] {
				return true
			}
		}
		for _, n := range names {
			seen[ns+"/"+n] = true
		}
	}
	return false
}

func corpusFocus(r *rng, cd *CorpusDir) []string {
	var names []string
	for _, d := range cd.Docs {
		switch d.Kind {
		case "Deployment", "ReplicaSet", "StatefulSet", "DaemonSet", "Job", "CronJob", "ReplicationController", "Pod":
			names = append(names, d.Name)
		}
	}
	if len(names) == 0 {
		return []string{"nosuchworkload"}
	}
	return []string{pick(r, names), "nosuchworkload"}
}

// c08Minimise shrinks a mismatch to a 1-minimal set of documents (or files) for which two
// executions still disagree on the single offending command.
func c08Minimise(mm *c08Mismatch, seed uint64) *Replay {
	c := mm.c
	steps := []job.Step{mm.step}
	seedPairs := [][2]uint64{{mm.base.seed, mm.v.seed}}
	sr := sub(seed, "C08", "minseeds", c.name)
	for i := 0; i < 5; i++ {
		seedPairs = append(seedPairs, [2]uint64{sr.u64() >> 1, sr.u64() >> 1})
	}
	usesB := mm.cli == nil && mm.step.Kind == job.Diff
	type cand struct {
		a, b Run
	}
	// build the pair of runs for a subset of R's documents (relayout) or files (verbatim)
	n1 := len(c.docs)
	n2 := len(c.docs2)
	if !c.relayout {
		n1, n2 = len(c.files), len(c.files2)
	}
	if !usesB {
		n2 = 0
	}
	build := func(keep []int, sp [2]uint64) cand {
		var k1, k2 []int
		for _, i := range keep {
			if i < n1 {
				k1 = append(k1, i)
			} else {
				k2 = append(k2, i-n1)
			}
		}
		mk := func(v *c08Variant, s uint64) Run {
			var fs []FSEntry
			if c.relayout {
				d1 := subsetDocs(v.docs, k1)
				fs = v.lay.restrict(k1).fs("a", d1)
				if usesB {
					fs = append(fs, v.lay2.restrict(k2).fs("b", subsetDocs(v.docs2, k2))...)
				}
			} else {
				fs = prefixFS("a", subsetFiles(c.files, k1))
				if usesB {
					fs = append(fs, prefixFS("b", subsetFiles(c.files2, k2))...)
				}
			}
			if mm.cli != nil {
				if v == mm.base && mm.cliBase != nil {
					return Run{FS: fs, CLI: mm.cliBase, Seed: s, RealEx: true}
				}
				return Run{FS: fs, CLI: mm.cli, Seed: s, RealEx: true}
			}
			return Run{FS: fs, Job: &job.Job{ID: c.name + "/" + v.kind, MapSeed: s, Steps: steps, KeepOut: true}}
		}
		return cand{mk(mm.base, sp[0]), mk(mm.v, sp[1])}
	}
	var lastGood *cand
	test := func(keep []int) bool {
		found := make([]bool, len(seedPairs))
		cands := make([]cand, len(seedPairs))
		parallel(len(seedPairs), len(seedPairs), func(i int) {
			cd := build(keep, seedPairs[i])
			cands[i] = cd
			ra, rb := execute(&cd.a), execute(&cd.b)
			found[i] = resultsDiffer(ra, rb)
		})
		for i, f := range found {
			if f {
				cp := cands[i]
				lastGood = &cp
				return true
			}
		}
		return false
	}
	all := make([]int, n1+n2)
	for i := range all {
		all[i] = i
	}
	keep := all
	if test(all) {
		keep = ddmin(n1+n2, test)
		if !test(keep) || lastGood == nil {
			return nil
		}
	} else {
		// the single command does not show it under any tried schedule: keep the two original
		// executions (all commands) as the witness; they replay exactly
		if mm.cli != nil {
			return nil
		}
		full := c08Steps(c)
		lastGood = &cand{c.run(mm.base, full, true), c.run(mm.v, full, true)}
	}
	rep := &Replay{Property: "C08", Clause: "same resources, different output", Seed: seed, Scenario: c.name, Repeat: 6,
		Runs: []Run{lastGood.a, lastGood.b}, Detail: map[string]string{"command": mm.cmdDesc(), "variation": mm.v.kind, "documents_kept": fmt.Sprint(len(keep))}}
	_, v := runReplay(rep)
	if v.Infra != "" || !v.Violated {
		return nil
	}
	rep.Note = fmt.Sprintf("[%s] %s", mm.v.kind, v.Desc)
	rep.Observed = v.Digests
	sk := stepKindSig(&mm.step)
	if mm.cli != nil {
		sk = "eval"
	}
	rep.Sig = "c08:" + shortHash(sk+"|"+normaliseDesc(v.Desc))
	return rep
}

func stepKindSig(s *job.Step) string {
	x := s.Kind
	if s.Exposure {
		x += "+exposure"
	}
	return x
}

// normaliseDesc strips run-specific names so that one defect keeps one signature.
func normaliseDesc(d string) string {
	repl := strings.NewReplacer("0", "#", "1", "#", "2", "#", "3", "#", "4", "#", "5", "#", "6", "#", "7", "#", "8", "#", "9", "#")
	return repl.Replace(d)
}

func subsetDocs(docs []Doc, keep []int) []Doc {
	out := make([]Doc, 0, len(keep))
	for _, i := range keep {
		out = append(out, docs[i])
	}
	return out
}

func subsetFiles(fs []FSEntry, keep []int) []FSEntry {
	out := make([]FSEntry, 0, len(keep))
	for _, i := range keep {
		out = append(out, fs[i])
	}
	return out
}

func init() { runners["C08"] = runC08 }
