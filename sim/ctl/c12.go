package main

import (
	"fmt"
	"path/filepath"
	"regexp"
	"sort"
	"strings"

	yamlv2 "gopkg.in/yaml.v2"
	"sigs.k8s.io/yaml"

	"verifsim/job"
)

// C12 — analysis is total on the corruption neighbourhood of valid manifests.
//
// Seed documents (generated worlds with every supported kind, and the corpus) are damaged
// one fault at a time: F1 exhaustive single-field drop / null / retype / empty of every
// node of the document tree; F2 line and byte level storage damage; F3 failing system
// calls on the input; F4 pairs of F1 faults. Every damaged directory goes through list,
// list --exposure and diff in both directions in-process (under recover, default logger),
// a sample goes through eval and through the separately linked CLI binary. Violation: a
// panic, a process death, or no exit within the watchdog budget.

type treeFault struct {
	path string // e.g. spec.template.spec.containers[0].ports[1].name
	op   string // drop | null | retype:<to> | empty
	text string // the damaged document
}

type pstep struct {
	key string
	idx int // -1: map key
}

func deepCopy(v interface{}) interface{} {
	switch x := v.(type) {
	case map[string]interface{}:
		m := make(map[string]interface{}, len(x))
		for k, c := range x {
			m[k] = deepCopy(c)
		}
		return m
	case []interface{}:
		l := make([]interface{}, len(x))
		for i, c := range x {
			l[i] = deepCopy(c)
		}
		return l
	}
	return v
}

func pathStr(p []pstep) string {
	var sb strings.Builder
	for _, s := range p {
		if s.idx >= 0 {
			fmt.Fprintf(&sb, "[%d]", s.idx)
		} else {
			sb.WriteString("." + s.key)
		}
	}
	return sb.String()
}

// applyAt returns a copy of root with the node at path replaced by v, or removed.
func applyAt(root interface{}, path []pstep, v interface{}, remove bool) interface{} {
	if len(path) == 0 {
		return v
	}
	s := path[0]
	switch x := root.(type) {
	case map[string]interface{}:
		m := make(map[string]interface{}, len(x))
		for k, c := range x {
			m[k] = c
		}
		if len(path) == 1 && remove {
			delete(m, s.key)
		} else {
			m[s.key] = applyAt(x[s.key], path[1:], v, remove)
		}
		return m
	case []interface{}:
		if len(path) == 1 && remove {
			return append(append([]interface{}{}, x[:s.idx]...), x[s.idx+1:]...)
		}
		l := append([]interface{}{}, x...)
		l[s.idx] = applyAt(x[s.idx], path[1:], v, remove)
		return l
	}
	return root
}

type alt struct {
	name string
	v    interface{}
}

var c12Full = true

// trimAlts keeps, in the quick tier, one representative per way a decoder can fail on the node.
func trimAlts(a []alt) []alt {
	if c12Full {
		return a
	}
	var out []alt
	for _, x := range a {
		switch x.name {
		case "retype:number", "retype:bool", "retype:list", "retype:list-of-string":
			continue
		}
		out = append(out, x)
	}
	return out
}

func alternatives(node interface{}) []alt {
	return trimAlts(allAlternatives(node))
}

func allAlternatives(node interface{}) []alt {
	var a []alt
	switch x := node.(type) {
	case map[string]interface{}:
		a = append(a, alt{"retype:string", "x"}, alt{"retype:list", []interface{}{}}, alt{"retype:number", 7})
		if len(x) > 0 {
			a = append(a, alt{"empty", map[string]interface{}{}})
		}
	case []interface{}:
		a = append(a, alt{"retype:string", "x"}, alt{"retype:map", map[string]interface{}{}})
		if len(x) > 0 {
			a = append(a, alt{"empty", []interface{}{}}, alt{"retype:list-of-null", []interface{}{nil}}, alt{"retype:list-of-string", []interface{}{"x"}})
		}
	case string:
		a = append(a, alt{"retype:map", map[string]interface{}{}}, alt{"retype:list", []interface{}{}}, alt{"retype:integer", 12345}, alt{"retype:bool", true}, alt{"value:other-string", "Other-Value_x"})
		if x != "" {
			a = append(a, alt{"empty", ""})
		}
	case float64:
		a = append(a, alt{"retype:string", "seven"}, alt{"retype:map", map[string]interface{}{}}, alt{"retype:negative", -1}, alt{"retype:huge", 99999999999}, alt{"retype:zero", 0}, alt{"value:one", 1}, alt{"value:65535", 65535}, alt{"value:65536", 65536})
	case bool:
		a = append(a, alt{"retype:string", "maybe"}, alt{"retype:flip", !x})
	case nil:
		a = append(a, alt{"retype:string", "x"}, alt{"retype:map", map[string]interface{}{}})
	default:
		a = append(a, alt{"retype:string", "x"})
	}
	return a
}

// enumerateTreeFaults returns every single-field fault of a document: for every node of
// its tree, drop it, null it, retype it and empty it.
func enumerateTreeFaults(text string) []treeFault {
	var root interface{}
	if err := yaml.Unmarshal([]byte(text), &root); err != nil || root == nil {
		return nil
	}
	var paths [][]pstep
	var nodes []interface{}
	var walk func(n interface{}, p []pstep)
	walk = func(n interface{}, p []pstep) {
		if len(p) > 0 {
			paths = append(paths, append([]pstep{}, p...))
			nodes = append(nodes, n)
		}
		switch x := n.(type) {
		case map[string]interface{}:
			for _, k := range sortedKeys(x) {
				walk(x[k], append(p, pstep{key: k, idx: -1}))
			}
		case []interface{}:
			for i := range x {
				walk(x[i], append(p, pstep{idx: i}))
			}
		}
	}
	walk(root, nil)
	seen := map[string]bool{text: true}
	var res []treeFault
	emit := func(p []pstep, op string, t interface{}) {
		b, err := yamlv2.Marshal(t) // straight to YAML: maps render with sorted keys
		if err != nil {
			return
		}
		if s := string(b); !seen[s] {
			seen[s] = true
			res = append(res, treeFault{path: pathStr(p), op: op, text: s})
		}
	}
	// the canonical re-rendering of the undamaged document is not a fault
	if b, err := yamlv2.Marshal(root); err == nil {
		seen[string(b)] = true
	}
	for i, p := range paths {
		emit(p, "drop", applyAt(root, p, nil, true))
		if nodes[i] != nil {
			emit(p, "null", applyAt(root, p, nil, false))
		}
		for _, a := range alternatives(nodes[i]) {
			emit(p, a.name, applyAt(root, p, a.v, false))
		}
		// unusual but legal values for address-like strings (in the thorough tier: for every string)
		if _, isStr := nodes[i].(string); isStr {
			lp := strings.ToLower(pathStr(p))
			if c12Full || strings.Contains(lp, "ip") || strings.Contains(lp, "cidr") || strings.Contains(lp, "except") {
				for _, a := range []alt{{"value:ipv6", "fe80::1"}, {"value:cidr6", "2001:db8::/32"}, {"value:cidr-bad", "10.0.0.0/33"}, {"value:ipv4-bad", "300.1.1.1"}} {
					emit(p, a.name, applyAt(root, p, a.v, false))
				}
			}
			// names nobody validated: not ASCII (bytes and characters differ in number), very long, with the
			// characters that paths, selectors and formats give a meaning to
			if c12Full || strings.Contains(lp, "name") {
				for _, a := range []alt{{"value:utf8", "w\u00f6rkload-\u540d\u524d-\u00fcn\u00ef"}, {"value:long", strings.Repeat("x", 300)}, {"value:odd", "a b/c%d\t\"q\",[x]"}} {
					emit(p, a.name, applyAt(root, p, a.v, false))
				}
			}
		}
	}
	return res
}

// byteFault applies one sampled storage fault to a document text.
func byteFault(r *rng, text string) (string, string) {
	lines := strings.Split(text, "\n")
	nl := len(lines)
	switch r.intn(8) {
	case 0:
		i := r.intn(nl)
		return strings.Join(append(append([]string{}, lines[:i]...), lines[i+1:]...), "\n"), fmt.Sprintf("lost line %d", i+1)
	case 1:
		i := r.intn(nl)
		if c := strings.Index(lines[i], ":"); c >= 0 {
			l2 := append([]string{}, lines...)
			l2[i] = lines[i][:c+1]
			return strings.Join(l2, "\n"), fmt.Sprintf("torn line %d after the colon", i+1)
		}
		return text[:len(text)/2], "truncated at half"
	case 2:
		i := r.intn(nl)
		l2 := append(append(append([]string{}, lines[:i+1]...), lines[i]), lines[i+1:]...)
		return strings.Join(l2, "\n"), fmt.Sprintf("duplicated line %d", i+1)
	case 3:
		if nl < 3 {
			return text + text, "doubled"
		}
		i := r.intn(nl - 1)
		l2 := append([]string{}, lines...)
		l2[i], l2[i+1] = l2[i+1], l2[i]
		return strings.Join(l2, "\n"), fmt.Sprintf("swapped lines %d and %d", i+1, i+2)
	case 4:
		i := r.intn(nl)
		l2 := append([]string{}, lines...)
		if r.chance(1, 2) {
			l2[i] = "  " + l2[i]
		} else {
			l2[i] = strings.TrimPrefix(l2[i], "  ")
		}
		return strings.Join(l2, "\n"), fmt.Sprintf("indentation shift on line %d", i+1)
	case 5:
		c := r.intn(len(text) + 1)
		return text[:c], fmt.Sprintf("truncated at byte %d", c)
	case 6:
		if len(text) == 0 {
			return "\x00", "nul"
		}
		c := r.intn(len(text))
		b := []byte(text)
		b[c] ^= 1 << uint(r.intn(7))
		return string(b), fmt.Sprintf("bit flip at byte %d", c)
	default:
		b := []byte(text)
		s := r.intn(len(b)/64+1) * 64
		for i := s; i < s+64 && i < len(b); i++ {
			b[i] = 0
		}
		return string(b), fmt.Sprintf("zeroed 64-byte sector at %d", s)
	}
}

type c12Context struct {
	name string
	docs []Doc
	pods []string // ns/name of bare pods with a Namespace... (for eval)
}

type c12Mutant struct {
	ctx            int
	target         int
	kind           string // F1 | F2 | F4
	desc           string
	text           string
	target2, text2 string // F4: second damaged document (target2 < 0: none)
	t2             int
}

func (m *c12Mutant) docs(ctx *c12Context) []Doc {
	out := append([]Doc{}, ctx.docs...)
	out[m.target].Text = m.text
	if m.kind == "F4" && m.t2 >= 0 {
		out[m.t2].Text = m.text2
	}
	return out
}

func c12Contexts(tier string, seed uint64) []c12Context {
	var ctxs []c12Context
	nGen, nCorpus, maxDocs := 8, 6, 8
	c12Full = tier == "thorough"
	if tier == "thorough" {
		nGen, nCorpus, maxDocs = 100, 1000, 14
	}
	if v := envInt("VERIF_C12_GEN"); v > 0 {
		nGen = v
	}
	for i := 0; i < nGen; i++ {
		r := sub(seed, "C12", "gen", i)
		f := drawFeatures(r)
		// small worlds, the workload kinds taken round-robin so that a handful of worlds covers all
		f.Kinds = []string{allKinds[(3*i)%len(allKinds)], allKinds[(3*i+1)%len(allKinds)], "Pod"}
		f.NWorkloads = 4
		f.NNamespaces = 2
		f.NsObjProb = 3
		f.NNetpols = 2
		f.Ingress = i%2 == 1
		f.SharedOwner = true
		f.NamedPorts, f.IPBlocks, f.Exprs = true, true, true
		if i%2 == 0 {
			f.NANPs, f.BANP = 1, true
		} else {
			f.NANPs, f.BANP = 0, false
		}
		if tier == "thorough" {
			f.NWorkloads, f.NNetpols = 5, 3
		}
		w := genWorld(r, f)
		ctxs = append(ctxs, c12Context{name: fmt.Sprintf("gen:%d", i), docs: w.Docs, pods: w.Pods})
	}
	corpus, err := loadCorpus(filepath.Join(repoRoot, "tests"))
	if err != nil {
		infra("corpus: %v", err)
	}
	r := sub(seed, "C12", "corpus")
	order := r.perm(len(corpus))
	taken := 0
	for _, i := range order {
		cd := &corpus[i]
		if !cd.Relayout || cd.NDocs == 0 || cd.NDocs > maxDocs {
			continue
		}
		big := false
		for _, d := range cd.Docs {
			big = big || len(d.Text) > 6000
		}
		if big {
			continue // per-fault cost grows with the square of the document size; such seeds are left out
		}
		if taken >= nCorpus {
			break
		}
		taken++
		var pods []string
		for _, d := range cd.Docs {
			if d.Kind == "Pod" {
				ns := d.NS
				if ns == "" {
					ns = "default"
				}
				pods = append(pods, ns+"/"+d.Name)
			}
		}
		ctxs = append(ctxs, c12Context{name: "corpus:" + cd.Name, docs: cd.Docs, pods: pods})
	}
	return ctxs
}

type crashSig struct {
	class, repoFrame, depFrame string
}

func (s crashSig) String() string {
	return "c12:" + s.class + ":" + s.repoFrame + ":" + s.depFrame
}

var numRe = regexp.MustCompile(`[0-9]+`)

func panicClass(v string) string {
	switch {
	case strings.Contains(v, "nil pointer dereference"):
		return "nil-deref"
	case strings.Contains(v, "index out of range"):
		return "index-out-of-range"
	case strings.Contains(v, "slice bounds out of range"):
		return "slice-bounds"
	case strings.Contains(v, "interface conversion"):
		return "interface-conversion"
	case strings.Contains(v, "stack overflow"):
		return "stack-overflow"
	case strings.Contains(v, "assignment to entry in nil map"):
		return "nil-map-write"
	}
	v = numRe.ReplaceAllString(v, "#")
	v = strings.NewReplacer(" ", "_", ":", "").Replace(v)
	if len(v) > 48 {
		v = v[:48]
	}
	return v
}

func shortFunc(f string) string {
	if i := strings.LastIndex(f, "/"); i >= 0 {
		f = f[i+1:]
	}
	return strings.NewReplacer("(", "", ")", "", "*", "").Replace(f)
}

func sigFromFrames(value string, frames []string) crashSig {
	s := crashSig{class: panicClass(value), repoFrame: "-", depFrame: "-"}
	for i, fr := range frames {
		fn := strings.Fields(fr)[0]
		isRepo := strings.Contains(fn, "np-guard/netpol-analyzer")
		if i == 0 && !isRepo {
			s.depFrame = shortFunc(fn)
		}
		if isRepo {
			s.repoFrame = shortFunc(fn)
			break
		}
	}
	return s
}

// sigFromStderr parses a Go crash dump ("panic: ..." / "fatal error: ...").
func sigFromStderr(stderr string) (crashSig, bool) {
	lines := strings.Split(stderr, "\n")
	value := ""
	start := -1
	for i, l := range lines {
		if strings.HasPrefix(l, "panic: ") || strings.HasPrefix(l, "fatal error: ") {
			value = l
			start = i
			break
		}
	}
	if start < 0 {
		return crashSig{}, false
	}
	var frames []string
	for _, l := range lines[start+1:] {
		if l == "" || strings.HasPrefix(l, "\t") || strings.HasPrefix(l, "goroutine ") || strings.HasPrefix(l, "[signal") {
			continue
		}
		fn := l
		if i := strings.LastIndex(fn, "("); i > 0 {
			fn = fn[:i]
		}
		if strings.HasPrefix(fn, "panic") || strings.HasPrefix(fn, "runtime.") || strings.HasPrefix(fn, "main.") {
			continue
		}
		frames = append(frames, fn+" ?")
	}
	return sigFromFrames(value, frames), true
}

func crashed(res *Result) (crashSig, string, bool) {
	if res.TimedOut {
		return crashSig{class: "timeout", repoFrame: "-", depFrame: "-"}, "no exit within the watchdog budget", true
	}
	if s, ok := sigFromStderr(res.Stderr); ok {
		return s, firstLine(res.Stderr, "panic: ", "fatal error: "), true
	}
	if res.Exit != 0 && res.Exit != 1 {
		return crashSig{class: fmt.Sprintf("exit-%d", res.Exit), repoFrame: "-", depFrame: "-"}, fmt.Sprintf("exit status %d", res.Exit), true
	}
	return crashSig{}, "", false
}

func firstLine(s string, prefixes ...string) string {
	for _, l := range strings.Split(s, "\n") {
		for _, p := range prefixes {
			if strings.HasPrefix(l, p) {
				return l
			}
		}
	}
	return ""
}

type c12Checker struct{}

func (c12Checker) recheck(r *Replay, res []*Result) Verdict {
	for i, x := range res {
		if x.Trace != nil {
			for k := range x.Trace.Events {
				if p := x.Trace.Events[k].Panic; p != nil {
					s := sigFromFrames(p.Value, p.Frames)
					return Verdict{Violated: true, Desc: fmt.Sprintf("run %d, %s: panic: %s [%s]", i, stepDesc(&r.Runs[i].Job.Steps[x.Trace.Events[k].Step]), p.Value, s), Digests: []string{s.String()}}
				}
			}
			if r.Runs[i].Job != nil && len(x.Trace.Events) == len(r.Runs[i].Job.Steps) {
				continue
			}
		}
		if s, what, ok := crashed(x); ok {
			return Verdict{Violated: true, Desc: fmt.Sprintf("run %d (%s): %s [%s]", i, strings.Join(r.Runs[i].CLI, " "), what, s), Digests: []string{s.String()}}
		}
	}
	return Verdict{Desc: "every command ended with a result or an error", Digests: []string{"clean"}}
}

func init() {
	checkers["C12"] = c12Checker{}
	runners["C12"] = runC12
}

var c12ListFmts = []string{"txt", "json", "csv", "md", "dot"}
var c12Focus = "w0" // every generated world has a workload w0 or a pod bp0; absent elsewhere (the warning path)
var c12DiffFmts = []string{"txt", "csv", "md", "dot"}

func c12Steps(dir string) []job.Step { return c12StepsRot(dir, 0) }

// c12StepsRot: the output formats rotate with the index of the damaged directory, so every formatter
// sees its share of damaged inputs at no extra cost.
func c12StepsRot(dir string, k int) []job.Step {
	st := []job.Step{
		{Kind: job.List, Dir: dir, Fmt: c12ListFmts[k%5], Loud: true},
		{Kind: job.List, Dir: dir, Fmt: c12ListFmts[(k+2)%5], Exposure: true, Loud: true},
		{Kind: job.Diff, Dir1: dir, Dir2: "orig", Fmt: c12DiffFmts[k%4], Loud: true},
		{Kind: job.List, Dir: dir, Fmt: c12ListFmts[(k+1)%5], Stop: true, Loud: true},
		{Kind: job.List, Dir: dir, Fmt: c12ListFmts[(k+3)%5], Focus: c12Focus, Loud: true},
	}
	if c12Full {
		st = append(st, job.Step{Kind: job.Diff, Dir1: "orig", Dir2: dir, Fmt: c12DiffFmts[(k+1)%4], Loud: true})
	}
	return st
}

// c12EvalStep asks, the way the eval command would, about every ordered pair of (up to four) bare pods
// of the context and about an external address, over all protocols.
func c12EvalStep(dir string, ctx *c12Context) *job.Step {
	if len(ctx.pods) < 2 {
		return nil
	}
	pods := ctx.pods
	if len(pods) > 4 {
		pods = pods[:4]
	}
	st := &job.Step{Kind: job.EvalAll, Dir: dir}
	for _, a := range pods {
		for _, b := range pods {
			if a == b {
				continue
			}
			for _, pr := range []string{"TCP", "UDP", "SCTP"} {
				st.Queries = append(st.Queries, [4]string{a, b, pr, "80"}, [4]string{a, b, pr, "8080"})
			}
		}
		st.Queries = append(st.Queries, [4]string{"10.1.2.3", a, "TCP", "80"}, [4]string{a, "10.1.2.3", "UDP", "53"}, [4]string{a, "192.168.49.2", "TCP", "443"})
	}
	// what the command's flags accept besides the usual: addresses of the other family, a block, a port by name
	// or out of range. The answer may be an error; it is never a crash.
	a := pods[0]
	st.Queries = append(st.Queries, [4]string{a, "::1", "TCP", "80"}, [4]string{"2001:db8::1", a, "TCP", "80"}, [4]string{a, "::ffff:10.0.0.1", "UDP", "53"},
		[4]string{a, "fe80::/10", "TCP", "80"}, [4]string{"10.0.0.0/8", a, "SCTP", "80"}, [4]string{a, pods[1], "TCP", "http"}, [4]string{a, pods[1], "TCP", "99999"},
		[4]string{a, pods[1], "", ""}, [4]string{a, pods[1], "tcp", "-1"})
	return st
}

const c12Batch = 16

type c12Hit struct {
	m     *c12Mutant
	sig   crashSig
	what  string
	step  *job.Step // in-process command, nil for a CLI finding
	cli   []string  // CLI arguments for a process-level finding
	fault *Fault
	extra []FSEntry
}

func runC12(tier string, seed uint64) int {
	rp := newReport("C12", tier, seed)
	ctxs := c12Contexts(tier, seed)
	phase := func(n string) { fmt.Printf("  [%6.1fs] %s\n", sinceS(rp.start), n) }
	phase("contexts ready")
	var muts []c12Mutant
	f1 := 0
	type dref struct{ ci, ti int }
	var drefs []dref
	for ci := range ctxs {
		for ti := range ctxs[ci].docs {
			drefs = append(drefs, dref{ci, ti})
		}
	}
	tfs := make([][]treeFault, len(drefs))
	parallel(len(drefs), workers, func(k int) { tfs[k] = enumerateTreeFaults(ctxs[drefs[k].ci].docs[drefs[k].ti].Text) })
	for k, d := range drefs {
		// whole-document faults: the document is lost (what referred to it now dangles), or stored twice
		orig := ctxs[d.ci].docs[d.ti].Text
		muts = append(muts, c12Mutant{ctx: d.ci, target: d.ti, kind: "F1", desc: "drop the whole document", text: "# lost\n", t2: -1},
			c12Mutant{ctx: d.ci, target: d.ti, kind: "F1", desc: "the document is stored twice", text: orig + "---\n" + orig, t2: -1})
		f1 += 2
		for _, tf := range tfs[k] {
			muts = append(muts, c12Mutant{ctx: d.ci, target: d.ti, kind: "F1", desc: tf.op + " " + strings.TrimPrefix(tf.path, "."), text: tf.text, t2: -1})
			f1++
		}
	}
	tfs = nil
	nF2, nF4, nF3 := 2000, 1000, 150
	if tier == "thorough" {
		nF2, nF4, nF3 = 60000, 40000, 3000
	}
	r := sub(seed, "C12", "sampled")
	for k := 0; k < nF2; k++ {
		ci := r.intn(len(ctxs))
		ti := r.intn(len(ctxs[ci].docs))
		t, desc := byteFault(r, ctxs[ci].docs[ti].Text)
		muts = append(muts, c12Mutant{ctx: ci, target: ti, kind: "F2", desc: desc, text: t, t2: -1})
	}
	// F4: pairs of single-field faults, in one or two documents of one directory
	f1ByDoc := map[[2]int][]int{}
	for i := 0; i < f1; i++ {
		k := [2]int{muts[i].ctx, muts[i].target}
		f1ByDoc[k] = append(f1ByDoc[k], i)
	}
	for k := 0; k < nF4 && f1 > 0; k++ {
		a := muts[r.intn(f1)]
		ci := a.ctx
		t2 := r.intn(len(ctxs[ci].docs))
		m := c12Mutant{ctx: ci, target: a.target, kind: "F4", desc: a.desc, text: a.text, t2: -1}
		if t2 != a.target {
			if l := f1ByDoc[[2]int{ci, t2}]; len(l) > 0 {
				b := muts[pick(r, l)]
				m.t2, m.text2 = t2, b.text
				m.desc += " + " + ctxs[ci].docs[t2].Kind + ": " + b.desc
			}
		} else {
			// second fault in the same document: apply another tree fault to the damaged text
			if tfs := enumerateTreeFaults(a.text); len(tfs) > 0 {
				tf := pick(r, tfs)
				m.text = tf.text
				m.desc += " + " + tf.op + " " + strings.TrimPrefix(tf.path, ".")
			}
		}
		muts = append(muts, m)
	}
	phase(fmt.Sprintf("fault plans ready: %d", len(muts)))
	// batches of mutants of one context
	sort.SliceStable(muts, func(a, b int) bool { return muts[a].ctx < muts[b].ctx })
	type batch struct{ lo, hi int }
	var batches []batch
	for lo := 0; lo < len(muts); {
		hi := lo
		for hi < len(muts) && hi-lo < c12Batch && muts[hi].ctx == muts[lo].ctx {
			hi++
		}
		batches = append(batches, batch{lo, hi})
		lo = hi
	}
	mkRun := func(ms []c12Mutant, b0 int) Run {
		ctx := &ctxs[ms[0].ctx]
		lay := canonicalLayout(len(ctx.docs))
		fs := lay.fs("orig", ctx.docs)
		var steps []job.Step
		for k := range ms {
			dir := fmt.Sprintf("m%02d", k)
			fs = append(fs, lay.fs(dir, ms[k].docs(ctx))...)
			steps = append(steps, c12StepsRot(dir, b0+k)...)
			if es := c12EvalStep(dir, ctx); es != nil {
				steps = append(steps, *es)
			}
		}
		return Run{FS: fs, Job: &job.Job{ID: "c12:" + ctx.name, MapSeed: 1, Steps: steps, GC: true}}
	}
	hits := make([][]c12Hit, len(batches))
	infras := make([]string, len(batches))
	var execs, cmds int64
	cnt := make([][2]int, len(batches))
	nodeTimeout = 45e9
	parallel(len(batches), workers, func(bi int) {
		b := batches[bi]
		ms := muts[b.lo:b.hi]
		var scan func(ms []c12Mutant, single bool, b0 int)
		scan = func(ms []c12Mutant, single bool, b0 int) {
			run := mkRun(ms, b0)
			res := execute(&run)
			cnt[bi][0]++
			if res.Infra != "" {
				infras[bi] = res.Infra
				return
			}
			complete := res.Trace != nil && len(res.Trace.Events) == len(run.Job.Steps)
			if res.Trace != nil {
				cnt[bi][1] += len(res.Trace.Events)
				for k := range res.Trace.Events {
					e := &res.Trace.Events[k]
					if e.Panic != nil {
						st := run.Job.Steps[e.Step]
						st.Dir, st.Dir1, st.Dir2 = renameDir(st.Dir), renameDir(st.Dir1), renameDir(st.Dir2)
						perMut := len(run.Job.Steps) / len(ms)
						h := c12Hit{m: &ms[e.Step/perMut], sig: sigFromFrames(e.Panic.Value, e.Panic.Frames), what: e.Panic.Value, step: &st}
						if st.Kind == job.EvalAll && e.QueryAt < len(st.Queries) {
							st.Queries = st.Queries[e.QueryAt : e.QueryAt+1]
						}
						hits[bi] = append(hits[bi], h)
					}
				}
			}
			if complete {
				return
			}
			// the process died or hung: isolate the mutant
			if !single {
				for k := range ms {
					scan(ms[k:k+1], true, b0+k)
				}
				return
			}
			s, what, ok := crashed(res)
			if !ok {
				s, what = crashSig{class: "died", repoFrame: "-", depFrame: "-"}, fmt.Sprintf("incomplete trace, exit %d", res.Exit)
			}
			st := c12Steps("m")[0]
			hits[bi] = append(hits[bi], c12Hit{m: &ms[0], sig: s, what: what, step: &st})
		}
		scan(ms, false, b.lo)
	})
	for bi := range batches {
		if infras[bi] != "" {
			infra("C12: %s", infras[bi])
		}
		execs += int64(cnt[bi][0])
		cmds += int64(cnt[bi][1])
	}
	// F0: no damage at all. Small and regular valid worlds (and every seed context as it is) through every
	// output format with and without exposure, focus, and diff against themselves: unusual but valid content
	// (one workload, address-only policies, empty results) is part of "any directory contents"
	nF0 := 300
	if tier == "thorough" {
		nF0 = 6000
	}
	f0Hits := make([][]c12Hit, nF0)
	f0Infra := make([]string, nF0)
	f0Muts := make([]c12Mutant, nF0)
	f0Ctx := make([]c12Context, nF0)
	parallel(nF0, workers, func(i int) {
		r := sub(seed, "C12", "F0", i)
		f := drawFeatures(r)
		if i%2 == 0 {
			f.NWorkloads, f.NNetpols, f.NNamespaces = r.between(1, 2), r.between(0, 2), 1
			f.NANPs, f.BANP, f.Large = 0, false, false
			f.OnlyIP = r.chance(1, 3)
			f.IPBlocks = true
		}
		if i%4 == 3 {
			// an eval world: bare pods that can be named on the command line, every namespace declared, admin policies
			// with named ports; asked about every pair of pods and about addresses in both directions
			f.PodsOnly, f.AllNsObjs, f.NamedPorts, f.Large = true, true, true, false
			f.NANPs, f.BANP = r.between(1, 4), r.chance(1, 2)
		}
		w := genWorld(r, f)
		f0Ctx[i] = c12Context{name: fmt.Sprintf("f0:%d", i), docs: w.Docs, pods: w.Pods}
		f0Muts[i] = c12Mutant{ctx: i, target: 0, kind: "F0", desc: "undamaged world", text: w.Docs[0].Text, t2: -1}
		lay := canonicalLayout(len(w.Docs))
		fs := append(lay.fs("m", w.Docs), lay.fs("orig", w.Docs)...)
		var steps []job.Step
		for _, f := range c12ListFmts {
			steps = append(steps, job.Step{Kind: job.List, Dir: "m", Fmt: f, Loud: true}, job.Step{Kind: job.List, Dir: "m", Fmt: f, Exposure: true, Loud: true})
		}
		for _, f := range c12DiffFmts {
			steps = append(steps, job.Step{Kind: job.Diff, Dir1: "m", Dir2: "orig", Fmt: f, Loud: true})
		}
		if len(w.Workloads) > 0 {
			wn := w.Workloads[0]
			steps = append(steps, job.Step{Kind: job.List, Dir: "m", Fmt: "dot", Focus: wn, Loud: true}, job.Step{Kind: job.List, Dir: "m", Fmt: "json", Focus: wn[strings.Index(wn, "/")+1:], Exposure: true, Loud: true})
		}
		if i%4 == 3 {
			if st := c12EvalStep("m", &f0Ctx[i]); st != nil {
				steps = append(steps, *st)
			}
		}
		run := Run{FS: fs, Job: &job.Job{ID: f0Ctx[i].name, MapSeed: 1, Steps: steps, GC: true}}
		res := execute(&run)
		if res.Infra != "" {
			f0Infra[i] = res.Infra
			return
		}
		if res.Trace != nil {
			for k := range res.Trace.Events {
				e := &res.Trace.Events[k]
				if e.Panic != nil {
					st := run.Job.Steps[e.Step]
					f0Hits[i] = append(f0Hits[i], c12Hit{m: &f0Muts[i], sig: sigFromFrames(e.Panic.Value, e.Panic.Frames), what: e.Panic.Value, step: &st})
				}
			}
		}
		if res.Trace == nil || len(res.Trace.Events) != len(steps) {
			if s, what, ok := crashed(res); ok {
				st := steps[0]
				f0Hits[i] = append(f0Hits[i], c12Hit{m: &f0Muts[i], sig: s, what: what, step: &st})
			}
		}
	})
	base := len(ctxs)
	ctxs = append(ctxs, f0Ctx...)
	for i := range f0Hits {
		if f0Infra[i] != "" {
			infra("C12: %s", f0Infra[i])
		}
		f0Muts[i].ctx = base + i
		hits = append(hits, f0Hits[i])
	}
	phase("in-process pass done")
	// process-level passes: eval through the CLI entry point, a sample through the separately
	// linked binary, and system-call faults on the input
	type procCase struct {
		m     *c12Mutant
		cli   []string
		real  bool
		fault *Fault
		extra []FSEntry // further entries of the scratch tree (directory-argument faults)
	}
	var procs []procCase
	pr := sub(seed, "C12", "procs")
	evalFrac, realFrac := 6, 12
	if tier == "thorough" {
		evalFrac, realFrac = 2, 10
	}
	for i := range muts {
		m := &muts[i]
		ctx := &ctxs[m.ctx]
		k := ctx.docs[m.target].Kind
		if len(ctx.pods) >= 2 && (k == "Pod" || k == "Namespace" || strings.Contains(k, "NetworkPolicy")) && pr.chance(1, evalFrac) {
			a, b := pick(pr, ctx.pods), pick(pr, ctx.pods)
			an, ap := splitKey(a)
			bn, bp := splitKey(b)
			procs = append(procs, procCase{m: m, cli: []string{"eval", "--dirpath", "m", "-s", ap, "-n", an, "-d", bp, "--destination-namespace", bn, "-p", pick(pr, []string{"80", "8080", "53"}), "--protocol", pick(pr, []string{"tcp", "udp"})}})
		}
		whole := strings.Contains(m.desc, "whole document") || strings.Contains(m.desc, "stored twice")
		if whole || pr.chance(1, realFrac*4) {
			// lost and doubled documents are the cheapest way to a fatal library error (dangling references,
			// duplicate names): the CLI's own error paths are exercised on every one of them
			procs = append(procs, procCase{m: m, real: true, cli: pick(pr, [][]string{{"list", "--dirpath", "m"}, {"list", "--dirpath", "m", "--exposure", "-o", "json"}, {"diff", "--dir1", "m", "--dir2", "orig", "-o", "md"}, {"diff", "--dir1", "orig", "--dir2", "m"}})})
		}
	}
	if haveStrace {
		for k := 0; k < nF3; k++ {
			m := &muts[pr.intn(len(muts))]
			ctx := &ctxs[m.ctx]
			fi := pr.intn(len(ctx.docs))
			f := &Fault{Syscall: "read", Path: fmt.Sprintf("m/d%03d.yaml", fi), Errno: "EIO", When: pr.between(1, 2)}
			switch pr.intn(4) {
			case 0:
				f.Syscall, f.Errno, f.When = "openat", pick(pr, []string{"EACCES", "EMFILE", "ENOENT", "EIO"}), 1
			case 1:
				f = &Fault{Syscall: "getdents64", Path: "m", Errno: "EIO", When: pr.between(1, 2)}
			}
			procs = append(procs, procCase{m: m, fault: f, cli: pick(pr, [][]string{{"list", "--dirpath", "m"}, {"list", "--dirpath", "m", "--exposure"}, {"diff", "--dir1", "m", "--dir2", "orig"}})})
		}
	}
	// faults on the directory argument itself: a path that cannot be stat'ed or opened for a reason other
	// than "does not exist" (symlink loop, a regular file in the middle of the path, an over-long name,
	// an injected EACCES / EIO on the directory), next to a healthy second directory
	nDirFaults := 40
	if tier == "thorough" {
		nDirFaults = 600
	}
	for k := 0; k < nDirFaults; k++ {
		m := &muts[pr.intn(len(muts))]
		bad, extra := "loopdir", []FSEntry{{Path: "loopdir", Link: "loopdir"}}
		var fault *Fault
		bad2 := "orig"
		switch pr.intn(9) {
		case 0:
		case 6, 7, 8:
			// directories that exist and hold manifest-named files, none of which holds a document (an empty file, comments
			// only, separators only, blanks only), and a directory with nothing in it: "nothing to analyse" on one side or both
			void := func(name string) []FSEntry {
				e := []FSEntry{{Path: name, Dir: true}}
				for i, n := 0, pr.between(0, 3); i < n; i++ {
					e = append(e, FSEntry{Path: fmt.Sprintf("%s/v%d.%s", name, i, pick(pr, []string{"yaml", "yml", "json"})),
						Text: pick(pr, []string{"", "# nothing here\n", "---\n---\n", " \n\t\n", "---\n# only a comment\n...\n"})})
				}
				return e
			}
			bad, extra = "void1", void("void1")
			if pr.chance(2, 3) {
				bad2 = "void2"
				extra = append(extra, void("void2")...)
				if pr.chance(1, 4) {
					bad2 = "void1"
				}
			}
		case 1:
			bad = "orig/d000.yaml/sub" // ENOTDIR
			extra = nil
		case 2:
			bad = strings.Repeat("n", 300) // ENAMETOOLONG
			extra = nil
		case 3:
			bad, extra = "dangling", []FSEntry{{Path: "dangling", Link: "/nonexistent/dir"}}
		default:
			bad, extra = "m", nil
			if haveStrace {
				fault = &Fault{Syscall: pick(pr, []string{"newfstatat", "openat"}), Path: "m", Errno: pick(pr, []string{"EACCES", "EIO", "ELOOP", "ENOTDIR"}), When: pr.between(1, 2)}
			}
		}
		cli := pick(pr, [][]string{{"list", "--dirpath", bad}, {"diff", "--dir1", bad, "--dir2", bad2}, {"diff", "--dir1", bad2, "--dir2", bad, "-o", "md"}, {"diff", "--dir1", bad, "--dir2", bad2, "--fail"},
			{"eval", "--dirpath", bad, "-s", "a", "-d", "b", "-p", "80"}, {"list", "--dirpath", bad, "--exposure", "--fail"}})
		procs = append(procs, procCase{m: m, real: true, cli: cli, fault: fault, extra: extra})
	}
	procHits := make([]*c12Hit, len(procs))
	procInfra := make([]string, len(procs))
	procInj := make([]int, len(procs))
	mkProc := func(p *procCase) Run {
		ctx := &ctxs[p.m.ctx]
		lay := canonicalLayout(len(ctx.docs))
		fs := append(lay.fs("orig", ctx.docs), lay.fs("m", p.m.docs(ctx))...)
		fs = append(fs, p.extra...)
		run := Run{FS: fs, CLI: p.cli, Seed: 1, RealEx: p.real}
		if p.fault != nil {
			run.Faults = []Fault{*p.fault}
		}
		return run
	}
	nodeTimeout = 20e9
	parallel(len(procs), workers, func(i int) {
		run := mkProc(&procs[i])
		res := execute(&run)
		if res.Infra != "" {
			procInfra[i] = res.Infra
			return
		}
		procInj[i] = res.Injected
		if s, what, ok := crashed(res); ok {
			if s.class == "timeout" {
				// bounded liveness: a timeout must reproduce 3 of 3 to count
				for k := 0; k < 2; k++ {
					if r2 := execute(&run); !r2.TimedOut {
						return
					}
				}
			}
			procHits[i] = &c12Hit{m: procs[i].m, sig: s, what: what, cli: procs[i].cli, fault: procs[i].fault, extra: procs[i].extra}
		}
	})
	injected := 0
	for i := range procs {
		if procInfra[i] != "" {
			infra("C12: %s", procInfra[i])
		}
		injected += procInj[i]
	}
	phase("process-level pass done")
	// fold: one witness per distinct crash signature, in scenario order
	var all []c12Hit
	for bi := range hits {
		all = append(all, hits[bi]...)
	}
	for i := range procHits {
		if procHits[i] != nil {
			all = append(all, *procHits[i])
		}
	}
	bySig := map[string][]c12Hit{}
	var sigOrder []string
	for _, h := range all {
		k := h.sig.String()
		if _, ok := bySig[k]; !ok {
			sigOrder = append(sigOrder, k)
		}
		bySig[k] = append(bySig[k], h)
	}
	for _, k := range sigOrder {
		h := bySig[k][0]
		rep := c12Witness(ctxs, &h, seed, len(bySig[k]))
		if rep == nil {
			infra("C12: crash %s (%s) did not reproduce in a fresh process", k, h.m.desc)
		}
		if ok, why := confirm(rep, 2); !ok {
			infra("C12: witness for %s does not replay: %s", k, why)
		}
		rp.violation(rep)
	}
	phase("witnesses done")
	byKind := map[string]int{}
	distinct := map[string]bool{}
	for i := range muts {
		byKind[muts[i].kind]++
		distinct[shortHash(muts[i].text+muts[i].text2)] = true
	}
	var samples []interface{}
	for i := 0; i < len(muts) && len(samples) < 4; i += 1 + len(muts)/4 {
		m := &muts[i]
		samples = append(samples, map[string]interface{}{"context": ctxs[m.ctx].name, "document": ctxs[m.ctx].docs[m.target].Kind + "/" + ctxs[m.ctx].docs[m.target].Name, "fault_kind": m.kind, "fault": m.desc})
	}
	ev := &Evidence{PropertyID: "C12", Tier: tier, Seed: int64(seed), Level: "fault_enumeration", WallS: sinceS(rp.start), Violations: rp.violations,
		Coverage: map[string]interface{}{
			"evaluations":         len(muts) + len(procs),
			"distinct_nontrivial": len(distinct),
			"rule": "one evaluation = one damaged directory (a seed context with one damaged document, or two for F4) run through list, list --exposure and diff in both directions in-process under recover with the default logger, " +
				"or one CLI process (eval on a sample of pod/namespace/policy faults, the separately linked binary on a sample, system-call faults under strace); F1 = every node of every seed document x {drop, null, retype, empty}, enumerated completely; " +
				"distinct = distinct damaged text; every damaged document differs from its seed, so every case is non-trivial",
			"samples":                 samples,
			"exhaustive":              false,
			"exhaustive_part":         "F1 single-field faults are enumerated completely for the seed documents of this run; F2, F3, F4 are sampled",
			"seed_contexts":           len(ctxs),
			"faults_by_kind":          byKind,
			"in_process_commands":     cmds,
			"processes":               execs + int64(len(procs)),
			"cli_process_cases":       len(procs),
			"syscall_faults_injected": injected,
			"crash_signatures":        sigOrder,
			"known_findings_observed": len(rp.known),
			"runs_per_hour":           perHour(len(muts)+len(procs), rp.start),
			"simulated_time":          "watchdog only: 20 s per CLI process (bounded liveness, a timeout must reproduce 3 of 3)",
			"real_components":         "all of /repo incl. pkg/cli, cli-runtime decoders, np-guard/models, kernel file system",
			"stubbed_components":      "none",
		},
		Assumptions: []string{
			"scope is the corruption neighbourhood of valid manifests (single and double faults), not arbitrary byte strings",
			"a crash is identified by (panic class, innermost repository function, innermost dependency function)",
		}}
	writeEvidence(ev)
	fmt.Printf("C12 %s seed=%d: %d contexts, %d damaged directories (F1 %d exhaustive), %d in-process commands, %d CLI processes, %d syscall faults, %d crash signatures, %d violations, %d known findings, %.1fs\n",
		tier, seed, len(ctxs), len(muts), f1, cmds, len(procs), injected, len(sigOrder), rp.violations, len(rp.known), sinceS(rp.start))
	return rp.exitCode()
}

func renameDir(d string) string {
	if strings.HasPrefix(d, "m") && len(d) == 3 {
		return "m"
	}
	return d
}

// c12Witness builds a self-contained witness for a crash: the damaged directory reduced to
// the documents the crash needs, run through the separately linked CLI where the command
// exists there, otherwise through the node.
func c12Witness(ctxs []c12Context, h *c12Hit, seed uint64, count int) *Replay {
	ctx := &ctxs[h.m.ctx]
	docs := h.m.docs(ctx)
	keepAlways := map[int]bool{h.m.target: true}
	if h.m.t2 >= 0 {
		keepAlways[h.m.t2] = true
	}
	build := func(keep []int) Run {
		lay := canonicalLayout(len(docs))
		fs := append(lay.restrict(keep).fs("m", subsetDocs(docs, keep)), lay.restrict(keep).fs("orig", subsetDocs(ctx.docs, keep))...)
		if h.cli != nil {
			fs = append(fs, h.extra...)
			run := Run{FS: fs, CLI: h.cli, Seed: 1, RealEx: true}
			if h.fault != nil {
				run.Faults = []Fault{*h.fault}
			}
			return run
		}
		return Run{FS: fs, Job: &job.Job{ID: "c12:witness", MapSeed: 1, Steps: []job.Step{*h.step}}}
	}
	want := h.sig.String()
	// an in-process finding is confirmed through the separately linked CLI binary where it shows there
	if h.cli == nil && h.step != nil {
		var cli []string
		switch h.step.Kind {
		case job.List:
			cli = []string{"list", "--dirpath", "m", "-o", h.step.Fmt}
			if h.step.Exposure {
				cli = append(cli, "--exposure")
			}
			if h.step.Stop {
				cli = append(cli, "--fail")
			}
		case job.Diff:
			cli = []string{"diff", "--dir1", h.step.Dir1, "--dir2", h.step.Dir2, "-o", h.step.Fmt}
		case job.EvalAll:
			if len(h.step.Queries) == 1 {
				q := h.step.Queries[0]
				cli = []string{"eval", "--dirpath", "m"}
				if i := strings.Index(q[0], "/"); i > 0 {
					cli = append(cli, "-s", q[0][i+1:], "-n", q[0][:i])
				} else {
					cli = append(cli, "--source-ip", q[0])
				}
				if i := strings.Index(q[1], "/"); i > 0 {
					cli = append(cli, "-d", q[1][i+1:], "--destination-namespace", q[1][:i])
				} else {
					cli = append(cli, "--destination-ip", q[1])
				}
				cli = append(cli, "-p", q[3], "--protocol", strings.ToLower(q[2]))
			}
		}
		if cli != nil {
			all := make([]int, len(docs))
			for i := range all {
				all[i] = i
			}
			saved := h.cli
			h.cli = cli
			run := build(all)
			res := execute(&run)
			if _, _, ok := crashed(res); ok {
				if s, ok2 := sigFromStderr(res.Stderr); ok2 {
					want = s.String()
				}
			} else {
				h.cli = saved
			}
		}
	}
	test := func(keep []int) bool {
		for k := range keepAlways {
			found := false
			for _, x := range keep {
				found = found || x == k
			}
			if !found {
				return false
			}
		}
		run := build(keep)
		res := execute(&run)
		v := c12Checker{}.recheck(&Replay{Runs: []Run{run}}, []*Result{res})
		return v.Violated && len(v.Digests) > 0 && v.Digests[0] == want
	}
	all := make([]int, len(docs))
	for i := range all {
		all[i] = i
	}
	keep := all
	if h.fault == nil && h.extra == nil && !strings.Contains(strings.Join(h.cli, " "), "d000.yaml") { // positional file names matter for a fault plan
		if !test(all) {
			return nil
		}
		keep = ddmin(len(docs), test)
	}
	run := build(keep)
	rep := &Replay{Property: "C12", Clause: "every command ends with a result or an error, never a crash", Seed: seed, Scenario: ctx.name, Runs: []Run{run},
		Detail: map[string]string{"fault_kind": h.m.kind, "fault": h.m.desc, "document": ctx.docs[h.m.target].Kind + "/" + ctx.docs[h.m.target].Name, "occurrences_in_this_run": fmt.Sprint(count)}}
	_, v := runReplay(rep)
	if v.Infra != "" || !v.Violated {
		return nil
	}
	rep.Sig = v.Digests[0]
	rep.Observed = v.Digests
	rep.Note = fmt.Sprintf("%s | %s of %s: %s | %d documents kept, seen %d times in this run", v.Desc, h.m.kind, rep.Detail["document"], h.m.desc, len(keep), count)
	return rep
}
