package main

import (
	"encoding/json"
	"fmt"
	"path/filepath"
	"sort"
	"strings"

	"sigs.k8s.io/yaml"

	"verifsim/job"
)

// C13 — bad or irrelevant documents are reported and never skew the result.
//
// A valid base directory B and, in the same process, B+F where the fault plan F only adds
// things the analysis must not use. Oracles: (a) same connections and peers, empty diff;
// (b) every broken / non-convertible / unreadable item has a severe, non-fatal entry that
// names its file; (c) with stop-on-error a severe item never leaves a non-empty report;
// (d) a fatal base stays an error whatever is added; (e) read faults at the system-call
// boundary (strace seam) are reported and, with stop-on-error, never give a partial report.

type faultItem struct {
	Kind    string   `json:"kind"`
	Path    string   `json:"path"`           // file the item lives in (relative to the directory)
	Text    string   `json:"text,omitempty"` // content of a separate file, or the inserted document
	Raw     []byte   `json:"raw,omitempty"`
	Link    string   `json:"link,omitempty"`
	Inline  bool     `json:"inline,omitempty"` // inserted into an existing file of the base at Pos
	File    int      `json:"file,omitempty"`
	Pos     int      `json:"pos,omitempty"`
	Entries int      `json:"entries"`         // number of severe entries this item must produce (0 = none required)
	Scan    bool     `json:"scan"`            // reported by the directory scan (not by object conversion)
	Names   []string `json:"names,omitempty"` // resource names of the bad documents (diff entries carry no file location)
}

var irrelevantDocs = []string{
	"apiVersion: v1\nkind: ConfigMap\nmetadata:\n  name: %s\n  namespace: alpha\ndata:\n  key: value\n",
	"apiVersion: v1\nkind: Secret\nmetadata:\n  name: %s\ntype: Opaque\nstringData:\n  p: q\n",
	"apiVersion: example.com/v1\nkind: Widget\nmetadata:\n  name: %s\nspec:\n  podSelector: 7\n  replicas: many\n",
	"apiVersion: v1\nkind: ServiceAccount\nmetadata:\n  name: %s\n  namespace: beta\n",
	"apiVersion: rbac.authorization.k8s.io/v1\nkind: ClusterRole\nmetadata:\n  name: %s\nrules: []\n",
	"apiVersion: autoscaling/v2\nkind: HorizontalPodAutoscaler\nmetadata:\n  name: %s\nspec:\n  maxReplicas: 3\n  scaleTargetRef:\n    kind: Deployment\n    name: w0\n    apiVersion: apps/v1\n",
}

var badSchemaDocs = []string{
	"apiVersion: apps/v1\nkind: Deployment\nmetadata:\n  name: %s\n  namespace: alpha\nspec: \"x\"\n",
	"apiVersion: apps/v1\nkind: Deployment\nmetadata:\n  name: %s\n  namespace: alpha\nspec:\n  replicas: three\n  template:\n    metadata:\n      labels:\n        app: a\n",
	"apiVersion: networking.k8s.io/v1\nkind: NetworkPolicy\nmetadata:\n  name: %s\n  namespace: alpha\nspec:\n  podSelector: 7\n",
	"apiVersion: networking.k8s.io/v1\nkind: NetworkPolicy\nmetadata:\n  name: %s\n  namespace: alpha\nspec:\n  podSelector: {}\n  ingress: deny\n",
	"apiVersion: v1\nkind: Pod\nmetadata:\n  name: %s\n  namespace: alpha\n  labels: [a, b]\nspec:\n  containers: []\n",
	"apiVersion: v1\nkind: Namespace\nmetadata:\n  name: %s\n  labels: 12\n",
	"apiVersion: policy.networking.k8s.io/v1alpha1\nkind: AdminNetworkPolicy\nmetadata:\n  name: %s\nspec:\n  priority: high\n  subject:\n    namespaces: {}\n",
	"apiVersion: v1\nkind: Service\nmetadata:\n  name: %s\n  namespace: alpha\nspec:\n  ports: 80\n",
	"apiVersion: apps/v1\nkind: StatefulSet\nmetadata:\n  name: %s\n  namespace: beta\nspec:\n  template:\n    spec:\n      containers:\n      - name: c\n        ports:\n        - containerPort: http\n",
	// everything the analysis reads is fine, the defect sits in the part it never looks at (a dump of a live cluster
	// carries a status in every document): accepted by mistake, these would add a workload, a service, a namespace
	"apiVersion: apps/v1\nkind: Deployment\nmetadata:\n  name: %s\n  namespace: alpha\n  labels:\n    app: a\nspec:\n  replicas: 1\n  selector:\n    matchLabels:\n      app: a\n  template:\n    metadata:\n      labels:\n        app: a\n    spec:\n      containers:\n      - name: c\n        image: img\nstatus:\n  replicas: three\n",
	"apiVersion: v1\nkind: Service\nmetadata:\n  name: %s\n  namespace: alpha\nspec:\n  selector:\n    app: a\n  ports:\n  - port: 80\nstatus:\n  loadBalancer: 7\n",
	"apiVersion: v1\nkind: Namespace\nmetadata:\n  name: %s\nstatus: gone\n",
	"apiVersion: apps/v1\nkind: DaemonSet\nmetadata:\n  name: %s\n  namespace: beta\nspec:\n  selector:\n    matchLabels:\n      tier: b\n  template:\n    metadata:\n      labels:\n        tier: b\n    spec:\n      containers:\n      - name: c\n        image: img\nstatus:\n  conditions: none\n",
	// manifests written years ago: kinds the analysis uses, under the API group they had then (well formed, such a
	// document is analysed like its modern spelling; these do not convert)
	"apiVersion: extensions/v1beta1\nkind: Deployment\nmetadata:\n  name: %s\n  namespace: alpha\nspec:\n  replicas: many\n  template:\n    metadata:\n      labels:\n        app: a\n    spec:\n      containers:\n      - name: c\n        image: img\n",
	"apiVersion: extensions/v1beta1\nkind: NetworkPolicy\nmetadata:\n  name: %s\n  namespace: alpha\nspec:\n  podSelector:\n  - app\n",
	"apiVersion: extensions/v1beta1\nkind: DaemonSet\nmetadata:\n  name: %s\n  namespace: beta\nspec:\n  template:\n    metadata:\n      labels:\n        tier: b\n    spec:\n      containers:\n        name: c\n",
	"apiVersion: apps/v1beta2\nkind: Deployment\nmetadata:\n  name: %s\n  namespace: alpha\nspec: \"x\"\n",
	"apiVersion: extensions/v1beta1\nkind: Ingress\nmetadata:\n  name: %s\n  namespace: alpha\nspec:\n  rules: 7\n",
	"apiVersion: extensions/v1beta1\nkind: ReplicaSet\nmetadata:\n  name: %s\n  namespace: beta\nspec:\n  replicas: [1]\n",
}

var brokenYAML = []string{
	"apiVersion: v1\nkind: Pod\nmetadata:\n  name: [unclosed\n",
	"apiVersion: v1\nkind: Pod\nmetadata:\n\tname: tab-indented\n",
	"apiVersion: v1\nkind: ConfigMap\nmetadata:\n  name: x\n data:\n  bad: indent\n",
	"kind: Deployment\napiVersion: apps/v1\nmetadata: {name: a, namespace: b\n",
	"apiVersion: v1\nkind: Pod\nmetadata:\n  name: \"unterminated\n",
	"a: b: c: d\n- x\n",
}

var brokenJSON = []string{
	"{\"apiVersion\": \"v1\", \"kind\": ",
	"{\"apiVersion\": \"v1\", \"kind\": \"Pod\", \"metadata\": {\"name\": \"x\"}",
	"[1, 2,",
	"{'single': 'quotes'}",
}

// kinds whose typed schema has a status structure (a NetworkPolicy has none: a status there is an unknown field)
var kindsWithStatus = map[string]bool{"Deployment": true, "ReplicaSet": true, "StatefulSet": true, "DaemonSet": true, "Job": true,
	"CronJob": true, "ReplicationController": true, "Service": true, "Namespace": true, "Ingress": true}

// brokenCopy keeps the identity of a document and makes its spec fail schema conversion.
func brokenCopy(text string, inStatus bool) string {
	var m map[string]interface{}
	if err := yaml.Unmarshal([]byte(text), &m); err != nil || m == nil {
		return ""
	}
	if _, ok := m["spec"]; !ok {
		return ""
	}
	if k, _ := m["kind"].(string); strings.HasSuffix(k, "List") {
		return ""
	}
	if k, _ := m["kind"].(string); inStatus && kindsWithStatus[k] {
		// the part the analysis reads stays as it is; the document still does not convert
		m["status"] = "stale broken copy"
	} else {
		m["spec"] = "stale broken copy"
		delete(m, "status")
	}
	b, err := yaml.Marshal(m)
	if err != nil {
		return ""
	}
	return string(b)
}

// metadataLevel: the document's metadata has the wrong shape, which the directory scan itself
// rejects (the object never reaches the conversion step).
func metadataLevel(tmpl string) bool {
	return strings.Contains(tmpl, "labels: [a, b]") || strings.Contains(tmpl, "labels: 12")
}

func yamlParses(text string) bool {
	var v interface{}
	return yaml.Unmarshal([]byte(text), &v) == nil
}

func jsonParses(text string) bool {
	var v interface{}
	return json.Unmarshal([]byte(text), &v) == nil
}

// tornCopy cuts a valid manifest inside a key token; returns "" if no unparsable cut is found.
func tornCopy(r *rng, text string) string {
	lines := strings.Split(text, "\n")
	for try := 0; try < 12; try++ {
		li := r.between(2, len(lines)-1)
		if li >= len(lines) {
			continue
		}
		l := lines[li]
		c := strings.Index(l, ":")
		ind := len(l) - len(strings.TrimLeft(l, " -"))
		if c <= ind+1 {
			continue
		}
		cut := ind + 1 + r.intn(c-ind-1)
		t := strings.Join(lines[:li], "\n") + "\n" + l[:cut]
		if !yamlParses(t) {
			return t
		}
	}
	return ""
}

var faultNames = []string{"000-", "mmm-", "zzz-"}
var faultDirs = []string{"", "", "", "a", "nested/deeper", "zz", "dir.yaml"}

type c13Case struct {
	name    string
	docs    []Doc
	lay     Layout
	items   []faultItem
	fatal   bool // the base carries a conflict on purpose
	admin   bool
	seed    uint64
	strace  *Fault // optional system-call fault (separate single-command processes)
	straceK string // "added" (fault file) | "valid" (file of the base) | "dir"
}

func genFaultItems(r *rng, docs []Doc, lay Layout) []faultItem {
	n := r.between(1, 5)
	var items []faultItem
	used := map[string]bool{}
	for _, f := range lay {
		used[f.Path] = true
	}
	fresh := func(ext string) string {
		for {
			p := filepath.Join(pick(r, faultDirs), fmt.Sprintf("%sflt%d%s", pick(r, faultNames), r.intn(1000), ext))
			if !used[p] {
				used[p] = true
				return p
			}
		}
	}
	for k := 0; k < n; k++ {
		name := fmt.Sprintf("flt-%d-%d", k, r.intn(10000))
		switch r.intn(15) {
		case 14:
			// X4 inside a List: a bad item between an unused item and nothing else of interest
			bad := fmt.Sprintf(pick(r, badSchemaDocs[:4]), name)
			lst, ok := joinDocsList([]Doc{{Text: fmt.Sprintf(irrelevantDocs[0], name+"-cm")}, {Text: bad}, {Text: fmt.Sprintf(irrelevantDocs[3], name+"-sa")}}, []int{0, 1, 2})
			if !ok {
				continue
			}
			items = append(items, faultItem{Kind: "X4.list", Path: fresh(".yaml"), Text: lst, Entries: 1, Names: []string{name}})
		case 12, 13:
			// X4 stale broken copy: a document with the identity (kind, namespace, name) of a document of
			// the base whose spec no longer converts, delivered before or after the good one
			if len(docs) == 0 || len(lay) == 0 {
				continue
			}
			di := r.intn(len(docs))
			t := brokenCopy(docs[di].Text, r.chance(1, 2))
			if t == "" {
				continue
			}
			if r.chance(1, 2) {
				items = append(items, faultItem{Kind: "X4.copy.file", Path: fresh(".yaml"), Text: t, Entries: 1, Names: []string{docs[di].Name}})
			} else {
				for fi, f := range lay {
					for pos, d := range f.Docs {
						if d == di {
							items = append(items, faultItem{Kind: "X4.copy.inline", Path: f.Path, Inline: true, File: fi, Pos: pos + r.intn(2), Text: t, Entries: 1, Names: []string{docs[di].Name}})
						}
					}
				}
			}
		case 0: // X1 separate file
			items = append(items, faultItem{Kind: "X1.file", Path: fresh(".yaml"), Text: fmt.Sprintf(pick(r, irrelevantDocs), name)})
		case 1: // X1 inline
			if len(lay) == 0 {
				continue
			}
			fi := r.intn(len(lay))
			items = append(items, faultItem{Kind: "X1.inline", Path: lay[fi].Path, Inline: true, File: fi, Pos: r.intn(len(lay[fi].Docs) + 1), Text: fmt.Sprintf(pick(r, irrelevantDocs), name)})
		case 2: // X2 other extension
			ext := pick(r, []string{".md", ".txt", ".sh", ".yaml.bak", ".png", ""})
			it := faultItem{Kind: "X2.ext", Path: fresh(ext), Text: "kind: Deployment\nthis is not yaml: [\n"}
			if r.chance(1, 2) {
				it.Raw = []byte{0x89, 'P', 'N', 'G', 0, 1, 2, 0xff, 0xfe}
				it.Text = ""
			}
			items = append(items, it)
		case 3: // X2 yaml without kind / empty / comments
			t := pick(r, []string{"foo: bar\n", "", "# only a comment\n", "---\n", "- a\n- b\n", "version: 3\nservices:\n  web:\n    image: x\n",
				// a List whose items say no kind: the scan reports them together, as one error made of several
				"apiVersion: v1\nkind: List\nitems:\n- apiVersion: v1\n  metadata:\n    name: a\n- apiVersion: v1\n  metadata:\n    name: b\n",
				"apiVersion: v1\nkind: List\nitems:\n- metadata:\n    name: a\n- apiVersion: v1\n  kind: ConfigMap\n  metadata:\n    name: ok\n- apiVersion: v1\n  data: {}\n- foo: bar\n"})
			items = append(items, faultItem{Kind: "X2.nokind", Path: fresh(pick(r, []string{".yaml", ".yml"})), Text: t})
		case 4: // X3 broken yaml
			t := pick(r, brokenYAML)
			if yamlParses(t) {
				continue
			}
			items = append(items, faultItem{Kind: "X3.yaml", Path: fresh(pick(r, []string{".yaml", ".yml"})), Text: t, Entries: 1, Scan: true})
		case 5: // X3 broken json
			t := pick(r, brokenJSON)
			if jsonParses(t) {
				continue
			}
			items = append(items, faultItem{Kind: "X3.json", Path: fresh(".json"), Text: t, Entries: 1, Scan: true})
		case 6: // X3 binary garbage
			b := make([]byte, r.between(16, 300))
			for i := range b {
				b[i] = byte(r.intn(256))
			}
			b[0], b[1] = 0x00, 0x01 // control characters: never a YAML stream
			if yamlParses(string(b)) {
				continue
			}
			items = append(items, faultItem{Kind: "X3.bin", Path: fresh(".yaml"), Raw: b, Entries: 1, Scan: true})
		case 7: // X3 torn copy of a valid manifest
			if len(docs) == 0 {
				continue
			}
			t := tornCopy(r, pick(r, docs).Text)
			if t == "" {
				continue
			}
			items = append(items, faultItem{Kind: "X3.torn", Path: fresh(".yaml"), Text: t, Entries: 1, Scan: true})
		case 8: // X4 separate file, possibly several documents
			m := r.between(1, 3)
			var parts, names []string
			scan := false
			for q := 0; q < m; q++ {
				t := pick(r, badSchemaDocs)
				scan = scan || metadataLevel(t)
				parts = append(parts, fmt.Sprintf(t, fmt.Sprintf("%s-%d", name, q)))
				names = append(names, fmt.Sprintf("%s-%d", name, q))
			}
			items = append(items, faultItem{Kind: "X4.file", Path: fresh(".yaml"), Text: strings.Join(parts, "---\n"), Entries: m, Scan: scan, Names: names})
		case 9: // X4 inline
			if len(lay) == 0 {
				continue
			}
			fi := r.intn(len(lay))
			t := pick(r, badSchemaDocs)
			for metadataLevel(t) {
				// a document whose metadata does not decode is rejected by the directory scan already;
				// inside a file of the base that would be a scan fault on a used file: keep those separate
				t = pick(r, badSchemaDocs)
			}
			items = append(items, faultItem{Kind: "X4.inline", Path: lay[fi].Path, Inline: true, File: fi, Pos: r.intn(len(lay[fi].Docs) + 1), Text: fmt.Sprintf(t, name), Entries: 1, Names: []string{name}})
		case 10: // X5 dangling symlink
			items = append(items, faultItem{Kind: "X5.dangling", Path: fresh(".yaml"), Link: "/nonexistent/target.yaml", Entries: 1, Scan: true})
		default: // X5 symlink loop
			p := fresh(".yaml")
			items = append(items, faultItem{Kind: "X5.loop", Path: p, Link: filepath.Base(p), Entries: 1, Scan: true})
		}
	}
	return items
}

// faultedFS renders B+F into prefix.
func faultedFS(prefix string, docs []Doc, lay Layout, items []faultItem) []FSEntry {
	type fileDocs struct {
		path  string
		texts []string
	}
	files := make([]fileDocs, len(lay))
	for i, f := range lay {
		files[i].path = f.Path
		for _, d := range f.Docs {
			files[i].texts = append(files[i].texts, docs[d].Text)
		}
	}
	// inline items: insert from the highest position down so earlier positions stay valid
	inl := []faultItem{}
	for _, it := range items {
		if it.Inline && it.File < len(files) {
			inl = append(inl, it)
		}
	}
	sort.SliceStable(inl, func(a, b int) bool { return inl[a].Pos > inl[b].Pos })
	for _, it := range inl {
		t := files[it.File].texts
		p := it.Pos
		if p > len(t) {
			p = len(t)
		}
		nt := append(append(append([]string{}, t[:p]...), it.Text), t[p:]...)
		files[it.File].texts = nt
	}
	res := []FSEntry{{Path: prefix, Dir: true}}
	for _, f := range files {
		var sb strings.Builder
		for k, t := range f.texts {
			if k > 0 {
				sb.WriteString("---\n")
			}
			sb.WriteString(t)
			if !strings.HasSuffix(t, "\n") {
				sb.WriteString("\n")
			}
		}
		res = append(res, FSEntry{Path: filepath.Join(prefix, f.path), Text: sb.String()})
	}
	for _, it := range items {
		if it.Inline {
			continue
		}
		e := FSEntry{Path: filepath.Join(prefix, it.Path), Text: it.Text, Raw: it.Raw, Link: it.Link}
		res = append(res, e)
	}
	return res
}

func c13Steps(c *c13Case) []job.Step {
	st := []job.Step{
		{Kind: job.List, Dir: "b", Fmt: "txt"},                            // 0 baseline
		{Kind: job.List, Dir: "bf", Fmt: "txt"},                           // 1
		{Kind: job.List, Dir: "bf", Fmt: "txt", API: "infos"},             // 2
		{Kind: job.List, Dir: "bf", Fmt: "txt", Stop: true},               // 3
		{Kind: job.List, Dir: "bf", Fmt: "txt", API: "infos", Stop: true}, // 4
		{Kind: job.List, Dir: "b", Fmt: "txt", API: "infos", Stop: true},  // 5 baseline with stop
		{Kind: job.Diff, Dir1: "bf", Dir2: "b", Fmt: "txt"},               // 6
		{Kind: job.Diff, Dir1: "b", Dir2: "bf", Fmt: "txt"},               // 7
		{Kind: job.Diff, Dir1: "bf", Dir2: "b", Fmt: "txt", Stop: true},   // 8
	}
	// 9: the faulted directory against itself (bad documents on both sides of a diff)
	st = append(st, job.Step{Kind: job.Diff, Dir1: "bf", Dir2: "bf", Fmt: "txt"})
	if !c.admin {
		st = append(st, job.Step{Kind: job.List, Dir: "b", Fmt: "txt", Exposure: true}, job.Step{Kind: job.List, Dir: "bf", Fmt: "txt", Exposure: true}) // 10, 11
	}
	// an input that is not there, under a plain name and behind a dangling link: whatever position it takes, the
	// answer is an error and nothing else (clause f). Appended last so that the indices above stay put.
	st = append(st,
		job.Step{Kind: job.List, Dir: "gone", Fmt: "txt"},
		job.Step{Kind: job.List, Dir: "dang", Fmt: "txt", Stop: true},
		job.Step{Kind: job.Diff, Dir1: "gone", Dir2: "b", Fmt: "txt"},
		job.Step{Kind: job.Diff, Dir1: "b", Dir2: "dang", Fmt: "txt"},
		job.Step{Kind: job.Diff, Dir1: "dang", Dir2: "b", Fmt: "md"},
		job.Step{Kind: job.Diff, Dir1: "bf", Dir2: "gone", Fmt: "txt", Stop: true})
	// last: the faulted directory analysed by an analyzer object that has analysed the fault-free one before
	// (a long-lived caller); judged like step 1
	st = append(st, job.Step{Kind: job.List, Dir: "bf", Fmt: "txt", Warm: "b"})
	return st
}

func c13Absent(d string) bool { return d == "gone" || d == "dang" }

func (c *c13Case) fs(items []faultItem) []FSEntry {
	fs := append(c.lay.fs("b", c.docs), faultedFS("bf", c.docs, c.lay, items)...)
	return append(fs, FSEntry{Path: "dang", Link: "/nonexistent/verif-no-such-input"})
}

func sameStrings(a, b []string) bool {
	if len(a) != len(b) {
		return false
	}
	for i := range a {
		if a[i] != b[i] {
			return false
		}
	}
	return true
}

// entriesNaming counts severe, non-fatal entries whose location or text mentions the file.
func entriesNaming(e *job.Event, path string) int {
	base := filepath.Base(path)
	n := 0
	for _, x := range e.Errors {
		if x.Severe && !x.Fatal && (strings.Contains(x.Location, base) || strings.Contains(x.Text, base)) {
			n++
		}
	}
	return n
}

// missingDocs returns the bad documents of an item that no severe, non-fatal entry accounts for. A
// document is accounted for by an entry that mentions its resource name; an item without resource names
// (or one the directory scan rejects as a whole) by an entry that mentions its file. Entries are not
// counted: one entry that reports several documents of a file is as good as several entries.
func missingDocs(e *job.Event, it *faultItem, perDir int) []string {
	base := filepath.Base(it.Path)
	count := func(needle string) int {
		n := 0
		for _, x := range e.Errors {
			if x.Severe && !x.Fatal && (strings.Contains(x.Location, needle) || strings.Contains(x.Text, needle)) {
				n++
			}
		}
		return n
	}
	var miss []string
	if it.Scan || len(it.Names) == 0 {
		if count(base) < perDir {
			miss = append(miss, base)
		}
		return miss
	}
	for _, nm := range it.Names {
		if count(nm) < perDir && count(base) < perDir*len(it.Names) {
			miss = append(miss, nm)
		}
	}
	return miss
}

// entriesNamingItem: for diff, whose entries carry no file location, the resource names count too.
func entriesNamingItem(e *job.Event, it *faultItem) int {
	base := filepath.Base(it.Path)
	n := 0
	for _, x := range e.Errors {
		if !x.Severe || x.Fatal {
			continue
		}
		hit := strings.Contains(x.Location, base) || strings.Contains(x.Text, base)
		for _, nm := range it.Names {
			hit = hit || strings.Contains(x.Text, "name: "+nm+" ")
		}
		if hit {
			n++
		}
	}
	return n
}

// c13Judge evaluates the trace of one case; "" = fine. It returns the clause letter too.
func c13Judge(c *c13Case, items []faultItem, steps []job.Step, ev []job.Event) (clause, why string) {
	if len(ev) != len(steps) {
		return "", ""
	}
	// a crash is C12's finding; here it only takes the crashed command out of the comparison
	// (a clause that needs a crashed command is skipped, the others are still judged)
	bad := func(idx ...int) bool {
		for _, i := range idx {
			if i < len(ev) && ev[i].Panic != nil {
				return true
			}
		}
		return false
	}
	// (f) an input path that does not exist yields an error and no result
	for i := range steps {
		st := &steps[i]
		if !(c13Absent(st.Dir) || c13Absent(st.Dir1) || c13Absent(st.Dir2)) || bad(i) {
			continue
		}
		if e := &ev[i]; e.OK || e.HasOut || e.NConns > 0 || len(e.Conns) > 0 || len(e.DiffRows) > 0 || e.Err == "" {
			return "f", fmt.Sprintf("%s: a result (ok=%t, %d connections, %d diff rows) for an input that does not exist", stepDesc(st), e.OK, e.NConns, len(e.DiffRows))
		}
	}
	if bad(0) {
		return "", ""
	}
	base, baseStop := &ev[0], &ev[5]
	severeItems, scanItems := 0, 0
	for _, it := range items {
		if it.Entries > 0 {
			severeItems++
			if it.Scan {
				scanItems++
			}
		}
	}
	if c.fatal {
		// (d) a fatal error always yields an error and no result
		for _, i := range []int{1, 2, 3, 6, 7} {
			e := &ev[i]
			if bad(i) {
				continue
			}
			if i == 3 && severeItems > 0 {
				// stop-on-error meets the severe item first and stops before the conflict can be
				// detected: no fatal error occurred in that run. Only a non-empty report is wrong.
				if e.NConns > 0 {
					return "d", fmt.Sprintf("%s: %d connections reported for an input with severe items and a fatal conflict", stepDesc(&steps[i]), e.NConns)
				}
				continue
			}
			if e.OK || e.HasOut || e.NConns > 0 || len(e.DiffRows) > 0 {
				return "d", fmt.Sprintf("%s: a report was produced although the input has a fatal conflict", stepDesc(&steps[i]))
			}
		}
		return "", ""
	}
	if !base.OK {
		return "", "" // the base itself does not analyse (e.g. named port towards an IP): nothing to compare
	}
	// (a) connections and peers unchanged, stop-on-error off
	warm := len(steps) - 1
	listed := []int{1, 2}
	if steps[warm].Warm != "" {
		listed = append(listed, warm)
	}
	for _, i := range listed {
		e := &ev[i]
		if bad(i) {
			continue
		}
		if !e.OK {
			return "a", fmt.Sprintf("%s: fails next to added documents (%s) although the base analyses fine", stepDesc(&steps[i]), e.Err)
		}
		if !sameStrings(e.Conns, base.Conns) {
			return "a", fmt.Sprintf("%s: connections differ from the fault-free directory: %s", stepDesc(&steps[i]), diffStrings(base.Conns, e.Conns))
		}
		if !sameStrings(e.Peers, base.Peers) {
			return "a", fmt.Sprintf("%s: peers differ from the fault-free directory: %s", stepDesc(&steps[i]), diffStrings(base.Peers, e.Peers))
		}
	}
	for _, i := range []int{6, 7} {
		e := &ev[i]
		if bad(i) {
			continue
		}
		if !e.OK {
			return "a", fmt.Sprintf("%s: diff fails next to added documents (%s)", stepDesc(&steps[i]), e.Err)
		}
		if !e.DiffEmpty || len(e.DiffRows) > 0 {
			return "a", fmt.Sprintf("%s: diff between the directory and itself plus unused documents is not empty: %v", stepDesc(&steps[i]), e.DiffRows)
		}
	}
	if len(ev) > 11 && ev[10].OK && !bad(10, 11) {
		e := &ev[11]
		if !e.OK {
			return "a", "list --exposure fails next to added documents: " + e.Err
		}
		if !sameStrings(e.Conns, ev[10].Conns) || !sameStrings(e.Exposed, ev[10].Exposed) {
			return "a", "list --exposure: result differs from the fault-free directory: " + diffStrings(ev[10].Conns, e.Conns) + diffStrings(ev[10].Exposed, e.Exposed)
		}
	}
	// (b) every broken / non-convertible / unreadable item has its severe entries
	for k := range items {
		it := &items[k]
		if it.Entries == 0 {
			continue
		}
		if bad(1) {
			break
		}
		if miss := missingDocs(&ev[1], it, 1); len(miss) > 0 {
			return "b", fmt.Sprintf("list (directory API): %s item %s: no severe entry accounts for %v", it.Kind, it.Path, miss)
		}
		if !it.Scan && !bad(2) {
			if miss := missingDocs(&ev[2], it, 1); len(miss) > 0 {
				return "b", fmt.Sprintf("list (ResourceInfos API): %s item %s: no severe entry accounts for %v", it.Kind, it.Path, miss)
			}
		}
		if steps[warm].Warm != "" && !bad(warm) {
			if miss := missingDocs(&ev[warm], it, 1); len(miss) > 0 {
				return "b", fmt.Sprintf("list (directory API, analyzer used before on the fault-free directory): %s item %s: no severe entry accounts for %v", it.Kind, it.Path, miss)
			}
		}
	}
	// (b) for diff: with bad documents in both directories, both are reported
	if !bad(9) {
		e := &ev[9]
		if !e.OK {
			return "a", "diff of the faulted directory with itself fails: " + e.Err
		}
		if !e.DiffEmpty || len(e.DiffRows) > 0 {
			return "a", fmt.Sprintf("diff of the faulted directory with itself is not empty: %v", e.DiffRows)
		}
		for k := range items {
			it := &items[k]
			if it.Entries == 0 {
				continue
			}
			if miss := missingDocs(e, it, 2); len(miss) > 0 {
				return "b", fmt.Sprintf("diff with bad documents on both sides: %s item %s: %v not reported once per directory", it.Kind, it.Path, miss)
			}
		}
	}
	// (c) stop-on-error: a severe item never leaves a non-empty report
	if severeItems > 0 {
		if e := &ev[3]; !bad(3) && e.OK && e.NConns > 0 {
			return "c", fmt.Sprintf("list --fail (directory API): %d connections reported although %d severe items are present", e.NConns, severeItems)
		}
		if severeItems > scanItems {
			// the ResourceInfos API only sees conversion failures (the scan is the caller's)
			if e := &ev[4]; !bad(4) && e.OK && e.NConns > 0 && scanItems == 0 {
				return "c", fmt.Sprintf("list stop-on-error (ResourceInfos API): %d connections reported although %d non-convertible items are present", e.NConns, severeItems)
			}
		}
		if e := &ev[8]; !bad(8) && e.OK && len(e.DiffRows) > 0 {
			return "c", "diff --fail: a non-empty diff was reported although severe items are present"
		}
	} else {
		// nothing severe was added: stop-on-error must behave as on the base
		if e := &ev[4]; !bad(4, 5) && (e.OK != baseStop.OK || !sameStrings(e.Conns, baseStop.Conns)) {
			return "a", "list stop-on-error (ResourceInfos API): result differs from the fault-free directory although nothing severe was added: " + diffStrings(baseStop.Conns, e.Conns)
		}
	}
	return "", ""
}

func diffStrings(a, b []string) string {
	as, bs := map[string]bool{}, map[string]bool{}
	for _, x := range a {
		as[x] = true
	}
	for _, x := range b {
		bs[x] = true
	}
	var out []string
	for _, x := range a {
		if !bs[x] {
			out = append(out, "-"+x)
		}
	}
	for _, x := range b {
		if !as[x] {
			out = append(out, "+"+x)
		}
	}
	if len(out) > 4 {
		out = append(out[:4], fmt.Sprintf("... (%d more)", len(out)-4))
	}
	return strings.Join(out, " ; ")
}

// ---- system-call faults (strace seam) -------------------------------------------------

// c13StraceJudge: res[0] = fault-free baseline of B, res[1] = list under the fault, res[2] = list --fail under the fault.
func c13StraceJudge(c *c13Case, res []*Result) (clause, why string) {
	for _, x := range res {
		if x.Trace == nil || len(x.Trace.Events) != 1 || x.Trace.Events[0].Panic != nil {
			return "", ""
		}
	}
	base, e, es := &res[0].Trace.Events[0], &res[1].Trace.Events[0], &res[2].Trace.Events[0]
	if !base.OK {
		return "", ""
	}
	name := c.strace.Path
	if res[1].Injected > 0 {
		switch c.straceK {
		case "added":
			if !e.OK {
				return "e", fmt.Sprintf("list fails (%s) because an unused file could not be read", e.Err)
			}
			if !sameStrings(e.Conns, base.Conns) {
				return "e", "connections change when an unused file cannot be read: " + diffStrings(base.Conns, e.Conns)
			}
			if entriesNaming(e, name) < 1 {
				return "e", fmt.Sprintf("%s(%s) on %s: no severe entry names the unreadable file", c.strace.Syscall, c.strace.Errno, name)
			}
		case "valid":
			if e.OK && entriesNaming(e, name) < 1 {
				return "e", fmt.Sprintf("%s(%s) on %s (a file of the base): the analysis succeeds and no severe entry names the file", c.strace.Syscall, c.strace.Errno, name)
			}
		case "dir":
			if e.OK {
				sev := false
				for _, x := range e.Errors {
					sev = sev || x.Severe
				}
				if !sev && !sameStrings(e.Conns, base.Conns) {
					return "e", "directory listing failed, the result differs and nothing severe was recorded"
				}
			}
		}
	}
	if res[2].Injected > 0 && c.straceK != "dir" {
		if es.OK && es.NConns > 0 {
			return "e", fmt.Sprintf("list --fail: %d connections reported although %s on %s failed", es.NConns, c.strace.Syscall, name)
		}
	}
	return "", ""
}

type c13Checker struct{}

func (c13Checker) recheck(r *Replay, res []*Result) Verdict {
	var c c13Case
	var items []faultItem
	if err := json.Unmarshal([]byte(r.Detail["case"]), &struct {
		Fatal   *bool        `json:"fatal"`
		Admin   *bool        `json:"admin"`
		Items   *[]faultItem `json:"items"`
		Strace  **Fault      `json:"strace"`
		StraceK *string      `json:"straceK"`
	}{&c.fatal, &c.admin, &items, &c.strace, &c.straceK}); err != nil {
		return Verdict{Infra: "replay detail: " + err.Error()}
	}
	if r.Clause == "e" {
		if len(res) != 3 {
			return Verdict{Infra: "strace replay needs three runs"}
		}
		cl, why := c13StraceJudge(&c, res)
		if why == "" {
			return Verdict{Desc: fmt.Sprintf("held (faults fired: %d, %d)", res[1].Injected, res[2].Injected), Digests: []string{"clean"}}
		}
		return Verdict{Violated: true, Desc: why, Digests: []string{cl}}
	}
	if len(res) != 1 || res[0].Trace == nil {
		return Verdict{Infra: "C13 replay needs one completed run"}
	}
	steps := r.Runs[0].Job.Steps
	cl, why := c13Judge(&c, items, steps, res[0].Trace.Events)
	if why == "" {
		return Verdict{Desc: "all clauses hold", Digests: []string{"clean"}}
	}
	return Verdict{Violated: true, Desc: "(" + cl + ") " + why, Digests: []string{cl}}
}

func init() {
	checkers["C13"] = c13Checker{}
	runners["C13"] = runC13
}

func c13Detail(c *c13Case, items []faultItem) string {
	b, _ := json.Marshal(map[string]interface{}{"fatal": c.fatal, "admin": c.admin, "items": items, "strace": c.strace, "straceK": c.straceK})
	return string(b)
}

func c13Build(seed uint64, i int) *c13Case {
	r := sub(seed, "C13", "case", i)
	f := drawFeatures(r)
	w := genWorld(r, f)
	if r.chance(1, 3) {
		w.Docs = exported(r, w.Docs) // a directory dumped from a cluster: stale broken copies then share uid and resourceVersion with the good object
	}
	c := &c13Case{name: fmt.Sprintf("c13:%d", i), docs: w.Docs, admin: w.HasAdmin, seed: r.u64() >> 1}
	if r.chance(1, 8) {
		// (d): make the base fatal on purpose
		c.fatal = true
		switch r.intn(3) {
		case 0:
			c.docs = append(c.docs, randNetpol(r, &f, "alpha", "dup-np"), randNetpol(r, &f, "alpha", "dup-np"))
		case 1:
			c.docs = append(c.docs, randANP(r, &f, "same-a", 77), randANP(r, &f, "same-b", 77))
			c.admin = true
		default:
			c.docs = append(c.docs, randBANP(r, &f, "not-default"))
			c.admin = true
		}
	}
	c.lay = randomLayout(r, len(c.docs))
	c.items = genFaultItems(r, c.docs, c.lay)
	if haveStrace && !c.fatal && r.chance(1, 4) && len(c.lay) > 0 {
		switch r.intn(5) {
		case 0, 1:
			// an added, valid-looking but unused file that cannot be opened / read
			p := fmt.Sprintf("%sunread%d.yaml", pick(r, faultNames), r.intn(100))
			c.items = []faultItem{{Kind: "X5.syscall", Path: p, Text: fmt.Sprintf(irrelevantDocs[0], "unreadable")}}
			sc, en := "openat", pick(r, []string{"EACCES", "EIO", "EMFILE"})
			if r.chance(1, 2) {
				sc, en = "read", "EIO"
			}
			c.strace, c.straceK = &Fault{Syscall: sc, Path: "bf/" + p, Errno: en, When: 1}, "added"
		case 2, 3:
			lf := pick(r, c.lay)
			c.items = nil
			c.strace, c.straceK = &Fault{Syscall: "read", Path: "bf/" + lf.Path, Errno: "EIO", When: r.between(1, 2)}, "valid"
			if r.chance(1, 3) {
				c.strace.Syscall, c.strace.Errno, c.strace.When = "openat", pick(r, []string{"EACCES", "ENOENT"}), 1
			}
		default:
			c.items = nil
			c.strace, c.straceK = &Fault{Syscall: "getdents64", Path: "bf", Errno: "EIO", When: 1}, "dir"
		}
	}
	return c
}

func (c *c13Case) straceRuns(items []faultItem) []Run {
	fs := c.fs(items)
	mk := func(dir string, stop bool, faults []Fault) Run {
		return Run{FS: fs, Faults: faults, Job: &job.Job{ID: c.name + "/strace", MapSeed: c.seed, Steps: []job.Step{{Kind: job.List, Dir: dir, Fmt: "txt", Stop: stop}}}}
	}
	return []Run{mk("b", false, nil), mk("bf", false, []Fault{*c.strace}), mk("bf", true, []Fault{*c.strace})}
}

func runC13(tier string, seed uint64) int {
	rp := newReport("C13", tier, seed)
	n := 700
	if tier == "thorough" {
		n = 150000
	}
	if v := envInt("VERIF_C13_N"); v > 0 {
		n = v
	}
	type out struct {
		c      *c13Case
		clause string
		why    string
		infra  string
		fired  map[string]int
		execs  int
		inj    int
	}
	outs := make([]out, n)
	parallel(n, workers, func(i int) {
		c := c13Build(seed, i)
		o := &outs[i]
		o.c = c
		o.fired = map[string]int{}
		if c.strace != nil {
			runs := c.straceRuns(c.items)
			res := make([]*Result, len(runs))
			for k := range runs {
				res[k] = execute(&runs[k])
				o.execs++
				if res[k].Infra != "" {
					o.infra = res[k].Infra
					return
				}
			}
			o.inj = res[1].Injected + res[2].Injected
			if res[1].Injected > 0 {
				o.fired["syscall:"+c.strace.Syscall+":"+c.strace.Errno+":"+c.straceK]++
			}
			o.clause, o.why = c13StraceJudge(c, res)
			return
		}
		steps := c13Steps(c)
		run := Run{FS: c.fs(c.items), Job: &job.Job{ID: c.name, MapSeed: c.seed, Steps: steps}}
		res := execute(&run)
		o.execs++
		if res.Infra != "" || res.Trace == nil {
			o.infra = fmt.Sprintf("%s exit=%d %s", res.Infra, res.Exit, tail(res.Stderr, 300))
			return
		}
		if len(res.Trace.Events) == len(steps) {
			for _, it := range c.items {
				if it.Entries == 0 || entriesNaming(&res.Trace.Events[1], it.Path) > 0 {
					o.fired[it.Kind]++
				}
			}
			if c.fatal {
				o.fired["fatal-base"]++
			}
		}
		o.clause, o.why = c13Judge(c, c.items, steps, res.Trace.Events)
	})
	fired := map[string]int{}
	execs, inj, nontrivial := 0, 0, 0
	var bad []int
	for i := range outs {
		o := &outs[i]
		if o.infra != "" {
			infra("C13: case %d: %s", i, o.infra)
		}
		execs += o.execs
		inj += o.inj
		nt := false
		for k, v := range o.fired {
			fired[k] += v
			if v > 0 {
				nt = true
			}
		}
		if nt {
			nontrivial++
		}
		if o.why != "" {
			bad = append(bad, i)
		}
	}
	reported, tried := 0, 0
	for _, i := range bad {
		if reported >= 4 || tried >= 8 {
			fmt.Printf("note: %d further failing cases not minimised\n", len(bad)-reported)
			break
		}
		rep := c13Minimise(outs[i].c, outs[i].clause, seed)
		if rep == nil {
			infra("C13: case %d (%s) did not reproduce during minimisation", i, outs[i].why)
		}
		if ok, why := confirm(rep, 3); !ok {
			infra("C13: witness for case %d does not replay: %s", i, why)
		}
		if rp.violation(rep) {
			reported++
		} else if knownFinding(rp.findings, rep.Property, rep.Sig) == nil {
			tried++ // a repeat of a signature already reported in this run (listed findings never count)
		}
	}
	var samples []interface{}
	for i := 0; i < n && len(samples) < 3; i += 1 + n/3 {
		c := outs[i].c
		var its []string
		for _, it := range c.items {
			its = append(its, it.Kind+" @ "+it.Path)
		}
		s := map[string]interface{}{"case": c.name, "base_documents": len(c.docs), "base_files": len(c.lay), "fatal_base": c.fatal, "fault_items": its}
		if c.strace != nil {
			s["syscall_fault"] = c.strace
		}
		samples = append(samples, s)
	}
	ev := &Evidence{PropertyID: "C13", Tier: tier, Seed: int64(seed), Level: "exploration", WallS: sinceS(rp.start), Violations: rp.violations,
		Coverage: map[string]interface{}{
			"evaluations":         n,
			"distinct_nontrivial": nontrivial,
			"rule": "one evaluation = one seeded (valid base directory, fault plan) pair: the base and base+faults are analysed in one process through list (both APIs, stop-on-error off/on), diff in both directions and list --exposure; a quarter of the cases with a system-call fault plan instead run three single-command processes under the strace seam; " +
				"a case is non-trivial when at least one planned fault was observed in the trace (a severe Errors() entry naming the item, an (INJECTED) line in the strace log, or for items that need no entry their presence in the analysed directory); cases are distinct by seed-derived content",
			"samples":                 samples,
			"executions":              execs,
			"fault_kinds_fired":       fired,
			"syscall_faults_injected": inj,
			"failing_cases":           len(bad),
			"known_findings_observed": len(rp.known),
			"runs_per_hour":           perHour(execs, rp.start),
			"simulated_time":          "none",
			"real_components":         "all of /repo, cli-runtime's directory walker and decoders, the kernel file system; strace supplies injected errnos at the system-call boundary",
			"stubbed_components":      "none",
			"strace_available":        haveStrace,
		},
		Assumptions: []string{
			"syntactically broken content is only ever added as separate files: the stream decoder stops at the first syntax error of a file, so a broken document inside a file that also holds used documents is a different situation from the one the statement describes",
			"no entry is required for files without a manifest extension, for empty / comment-only files, nor for YAML files without kind (the statement asks for entries for unreadable or malformed documents)",
			"for the ResourceInfos API only conversion failures must be recorded by the analyzer (scanning the directory is the caller's business)",
			"with a read fault inside a file of the base and stop-on-error off, a partial report is allowed (the documents really are gone); only the severe entry is required",
			"on the current tree ConnlistFromDirPath with stop-on-error returns an empty result for every directory; that satisfies clause (c) vacuously and is recorded in DESIGN.md as an observation",
		}}
	writeEvidence(ev)
	fmt.Printf("C13 %s seed=%d: %d cases, %d executions, %d syscall faults injected, %d failing cases, %d violations, %d known findings, %.1fs\n",
		tier, seed, n, execs, inj, len(bad), rp.violations, len(rp.known), sinceS(rp.start))
	return rp.exitCode()
}

func c13Minimise(c *c13Case, clause string, seed uint64) *Replay {
	if c.strace != nil {
		rep := &Replay{Property: "C13", Clause: "e", Seed: seed, Scenario: c.name, Runs: c.straceRuns(c.items), Detail: map[string]string{"case": c13Detail(c, c.items)}}
		_, v := runReplay(rep)
		if v.Infra != "" || !v.Violated {
			return nil
		}
		rep.Note = v.Desc
		rep.Observed = v.Digests
		rep.Sig = "c13:e:" + c.straceK + ":" + c.strace.Syscall
		return rep
	}
	steps := c13Steps(c)
	judge := func(items []faultItem, docsKeep []int) (string, string, Run) {
		cc := *c
		cc.docs = subsetDocs(c.docs, docsKeep)
		cc.lay = c.lay.restrict(docsKeep)
		// inline items keep pointing at files by index: only valid while no file disappears
		for _, it := range items {
			if it.Inline && (len(cc.lay) != len(c.lay)) {
				return "", "", Run{}
			}
		}
		run := Run{FS: cc.fs(items), Job: &job.Job{ID: c.name + "/min", MapSeed: c.seed, Steps: steps}}
		res := execute(&run)
		if res.Trace == nil {
			return "", "", run
		}
		cl, why := c13Judge(&cc, items, steps, res.Trace.Events)
		return cl, why, run
	}
	allDocs := make([]int, len(c.docs))
	for i := range allDocs {
		allDocs[i] = i
	}
	if cl, _, _ := judge(c.items, allDocs); cl != clause {
		return nil
	}
	keepItems := ddmin(len(c.items), func(keep []int) bool {
		var its []faultItem
		for _, k := range keep {
			its = append(its, c.items[k])
		}
		cl, _, _ := judge(its, allDocs)
		return cl == clause
	})
	var items []faultItem
	for _, k := range keepItems {
		items = append(items, c.items[k])
	}
	keepDocs := allDocs
	if !c.fatal {
		keepDocs = ddmin(len(c.docs), func(keep []int) bool {
			cl, _, _ := judge(items, keep)
			return cl == clause
		})
	}
	cl, why, run := judge(items, keepDocs)
	if cl != clause {
		return nil
	}
	cc := *c
	rep := &Replay{Property: "C13", Clause: clause, Seed: seed, Scenario: c.name, Runs: []Run{run}, Detail: map[string]string{"case": c13Detail(&cc, items)}}
	var kinds []string
	for _, it := range items {
		kinds = append(kinds, it.Kind)
	}
	rep.Note = fmt.Sprintf("(%s) %s | fault items kept: %v, base documents kept: %d", clause, why, kinds, len(keepDocs))
	rep.Observed = []string{clause}
	sort.Strings(kinds)
	rep.Sig = "c13:" + clause + ":" + strings.Join(kinds, "+")
	return rep
}
