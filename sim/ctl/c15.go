package main

import "verifsim/job"

type history struct{ steps []job.Step }

func genHistory(r *rng, n int) *history { return &history{} }

func (h *history) job(id string, seed uint64) *job.Job {
	return &job.Job{ID: id, MapSeed: seed, Steps: h.steps}
}
