package main

import (
	"encoding/json"
	"fmt"
	"os"
	"strings"

	corev1 "k8s.io/api/core/v1"
	netv1 "k8s.io/api/networking/v1"
	metav1 "k8s.io/apimachinery/pkg/apis/meta/v1"
	"k8s.io/apimachinery/pkg/types"
	"k8s.io/apimachinery/pkg/util/intstr"
	apisv1a "sigs.k8s.io/network-policy-api/apis/v1alpha1"

	"verifsim/job"
)

// C15 — PolicyEngine answers depend on the current objects only.
//
// One live engine is driven through a seeded history of inserts, updates, deletes,
// SetResources, ClearResources and queries over a deliberately tiny universe. At every
// query the node also asks two fresh engines built from the reference model's current
// objects (canonical and reverse fill order). Oracle: live == fresh == fresh-reversed,
// and nothing panics.

type history struct {
	steps []job.Step
	cache int
}

func (h *history) job(id string, seed uint64) *job.Job {
	return &job.Job{ID: id, MapSeed: seed, CacheSize: h.cache, Steps: h.steps}
}

func mustJSON(v interface{}) json.RawMessage {
	b, err := json.Marshal(v)
	if err != nil {
		panic(err)
	}
	return b
}

var (
	hNS     = []string{"ns0", "ns1", "ns2"}
	hOwners = []string{"o0", "o1-6d4cf56db6", "o2", ""} // o1 is a Deployment's ReplicaSet: named after the template hash
	hProtos = []string{"TCP", "UDP", "SCTP"}
	hPorts  = []string{"80", "8080", "53", "443"}
	hIPs    = []string{"10.0.0.1", "192.168.1.5", "172.16.5.9"}
)

func hLabels(r *rng, keys, vals []string) map[string]string {
	m := map[string]string{}
	for _, k := range keys {
		if r.chance(2, 3) {
			m[k] = pick(r, vals)
		}
	}
	return m
}

func hSelector(r *rng, keys, vals []string) metav1.LabelSelector {
	switch r.intn(5) {
	case 0:
		return metav1.LabelSelector{}
	case 1:
		return metav1.LabelSelector{MatchExpressions: []metav1.LabelSelectorRequirement{{Key: pick(r, keys), Operator: pick(r, []metav1.LabelSelectorOperator{metav1.LabelSelectorOpExists, metav1.LabelSelectorOpDoesNotExist})}}}
	case 2:
		return metav1.LabelSelector{MatchExpressions: []metav1.LabelSelectorRequirement{{Key: pick(r, keys), Operator: pick(r, []metav1.LabelSelectorOperator{metav1.LabelSelectorOpIn, metav1.LabelSelectorOpNotIn}), Values: []string{pick(r, vals)}}}}
	default:
		return metav1.LabelSelector{MatchLabels: map[string]string{pick(r, keys): pick(r, vals)}}
	}
}

var (
	podKeys = []string{"app", "tier"}
	podVals = []string{"a", "b"}
	nsKeys  = []string{"env", "team"}
	nsVals  = []string{"x", "y"}
)

type hGen struct {
	r *rng
	// beliefs, used only to bias generation (the node's model is the authority)
	pods     map[string]*corev1.Pod // "ns/name"
	nps      map[string]*netv1.NetworkPolicy
	anps     map[string]*apisv1a.AdminNetworkPolicy
	nss      map[string]bool
	banp     bool
	prio     map[string]int32
	prioPool []int                        // unused priorities, for names that come back with another one
	ownerLb  map[string]map[string]string // ns/owner -> labels shared by its pods
	asked    []job.Step
	steps    []job.Step
	drift    bool
	epoch    map[string]int // ns/owner -> port epoch (bumped by a re-port of the whole workload)
	touched  []string       // pods touched by the latest mutation: the next queries look there first
	// swarm knobs of this history
	nsN, podN       int   // size of the universe
	tcpOnly         bool  // queries and rules stick to TCP
	named           int   // out of 3: how often a rule port is the named port
	broad           bool  // selectors are mostly empty, so policies really select the pods
	weights         []int // per-history mix of mutation kinds
	exprs           bool  // selectors are mostly matchExpressions (Exists / DoesNotExist / In / NotIn)
	variants        bool  // pods of one owner often carry label sets that are easy to confuse with each other
	anpN            int   // number of ANP names in play
	adminPre        int   // admin profile: ANPs inserted up front
	owned           bool  // every pod has a controller (so every verdict is cacheable)
	qports          []string
	qBurst          int // extra fresh queries after every mutation (eviction profile)
	forceSmallCache bool
	nsNames         []string
	defNS           bool // the first namespace is `default`, and policies in it often leave the namespace field out
	bareDefault     bool // no pod of `default` ever spells its namespace (manifests written for `kubectl apply` without -n)
	odd             bool // some questions cannot be answered (a port given by name), some egress rules name their port
}

func (g *hGen) ns() string { return pick(g.r, g.nsNames[:g.nsN]) }

func (g *hGen) proto() string {
	if g.tcpOnly {
		return "TCP"
	}
	return pick(g.r, hProtos)
}

func (g *hGen) sel(keys, vals []string) metav1.LabelSelector {
	if g.exprs && g.r.chance(2, 3) {
		r := g.r
		op := pick(r, []metav1.LabelSelectorOperator{metav1.LabelSelectorOpExists, metav1.LabelSelectorOpDoesNotExist, metav1.LabelSelectorOpIn, metav1.LabelSelectorOpNotIn})
		e := metav1.LabelSelectorRequirement{Key: pick(r, keys), Operator: op}
		if op == metav1.LabelSelectorOpIn || op == metav1.LabelSelectorOpNotIn {
			e.Values = []string{pick(r, vals)}
		}
		return metav1.LabelSelector{MatchExpressions: []metav1.LabelSelectorRequirement{e}}
	}
	if g.broad && g.r.chance(2, 3) {
		return metav1.LabelSelector{}
	}
	return hSelector(g.r, keys, vals)
}

func (g *hGen) obj(kind string, v interface{}) job.Obj {
	if np, ok := v.(*netv1.NetworkPolicy); ok && g.defNS && np.Namespace == "default" && g.r.chance(1, 2) {
		// the same policy as a manifest without the namespace field: still the policy default/<name>
		c := np.DeepCopy()
		c.Namespace = ""
		v = c
	}
	return job.Obj{Kind: kind, JSON: mustJSON(v)}
}

func (g *hGen) add(op string, o ...job.Obj) {
	g.steps = append(g.steps, job.Step{Kind: job.Op, Op: op, Objs: o})
	for _, x := range o {
		if x.Kind == "Pod" {
			var p corev1.Pod
			if json.Unmarshal(x.JSON, &p) == nil {
				g.touched = append(g.touched, p.Namespace+"/"+p.Name)
			}
		}
	}
}

// insOp: an insert, or (one in three) the update of a caller that changes the object it inserted before in place
// and hands the same pointer in again (for an object that is new to the engine the two are the same).
func (g *hGen) insOp() string {
	if g.r.chance(1, 3) {
		return "insertInPlace"
	}
	return "insert"
}

func (g *hGen) mkNamespace(name string) *corev1.Namespace {
	l := hLabels(g.r, nsKeys, nsVals)
	l["kubernetes.io/metadata.name"] = name
	return &corev1.Namespace{TypeMeta: metav1.TypeMeta{APIVersion: "v1", Kind: "Namespace"}, ObjectMeta: metav1.ObjectMeta{Name: name, Labels: l}}
}

func (g *hGen) mkPod(ns, name string) *corev1.Pod {
	r := g.r
	owner := pick(r, hOwners)
	if g.owned {
		owner = pick(r, hOwners[:3])
	}
	labels := hLabels(r, podKeys, podVals)
	var ports []corev1.ContainerPort
	if owner != "" {
		k := ns + "/" + owner
		if ns == "" {
			k = "default/" + owner // dressed like its namesake's pods in `default`
		}
		if l, ok := g.ownerLb[k]; ok && !r.chance(1, 6) && !(g.variants && r.chance(1, 2)) {
			labels = l
		} else if ok && len(l) > 0 && (g.variants || r.chance(1, 3)) {
			// a sibling with a label set that is easy to confuse with the owner's usual one: the same keys
			// with the values moved around, one key dropped, or one value changed
			labels = confusable(r, l)
		} else {
			g.ownerLb[k] = labels
		}
		// pods of one (owner, label set) have identical ports: derive them from the key
		ports = ownerPorts(k, labels, g.epoch[k])
		if g.drift && r.chance(1, 2) {
			ports = []corev1.ContainerPort{{Name: "http", ContainerPort: pick(r, []int32{80, 8080, 443}), Protocol: corev1.ProtocolTCP}}
		}
	} else {
		if r.chance(1, 2) {
			ports = append(ports, corev1.ContainerPort{Name: "http", ContainerPort: pick(r, []int32{80, 8080}), Protocol: corev1.ProtocolTCP})
		}
	}
	if strings.HasSuffix(owner, "-6d4cf56db6") {
		// and its pods carry the hash as a label, whatever else they are labelled with
		withHash := map[string]string{"pod-template-hash": "6d4cf56db6"}
		for k, v := range labels {
			withHash[k] = v
		}
		labels = withHash
	}
	p := &corev1.Pod{TypeMeta: metav1.TypeMeta{APIVersion: "v1", Kind: "Pod"}, ObjectMeta: metav1.ObjectMeta{Name: name, Namespace: ns, Labels: labels},
		Spec:   corev1.PodSpec{Containers: []corev1.Container{{Name: "c", Image: "i", Ports: ports}}},
		Status: corev1.PodStatus{HostIP: "192.168.49." + fmt.Sprint(2+r.intn(2)), PodIPs: []corev1.PodIP{{IP: "10.244.0." + fmt.Sprint(2+r.intn(200))}}}}
	if owner != "" {
		t := true
		p.OwnerReferences = []metav1.OwnerReference{{APIVersion: "apps/v1", Kind: "ReplicaSet", Name: owner, UID: types.UID("u" + owner), Controller: &t}}
		if r.chance(1, 5) {
			// the controller's reference need not be the first one
			f := false
			p.OwnerReferences = append([]metav1.OwnerReference{{APIVersion: "v1", Kind: "ConfigMap", Name: "not-the-controller", UID: "ucm"}, {APIVersion: "batch/v1", Kind: "Job", Name: "helper", UID: "ujob", Controller: &f}}, p.OwnerReferences...)
		}
	}
	return p
}

// ownerPorts: pods of one (owner, label set, epoch) have identical container ports.
func ownerPorts(ownerKey string, labels map[string]string, epoch int) []corev1.ContainerPort {
	pr := sub(0x15, ownerKey, fmt.Sprint(labels), epoch)
	if epoch > 0 && pr.chance(1, 3) {
		// the smallest possible re-port: names and numbers stay, one named port changes its protocol
		prev := ownerPorts(ownerKey, labels, epoch-1)
		if len(prev) > 0 {
			ports := append([]corev1.ContainerPort{}, prev...)
			i := pr.intn(len(ports))
			if ports[i].Protocol == corev1.ProtocolTCP {
				ports[i].Protocol = corev1.ProtocolUDP
			} else {
				ports[i].Protocol = corev1.ProtocolTCP
			}
			return ports
		}
	}
	var ports []corev1.ContainerPort
	if pr.chance(2, 3) {
		// the name stands for a number and a protocol; a new epoch may change either (http/3 is UDP)
		ports = append(ports, corev1.ContainerPort{Name: "http", ContainerPort: pick(pr, []int32{80, 8080, 443}), Protocol: []corev1.Protocol{corev1.ProtocolTCP, corev1.ProtocolUDP}[pr.weighted([]int{3, 1})]})
	}
	if pr.chance(1, 3) {
		ports = append(ports, corev1.ContainerPort{Name: "dns", ContainerPort: 53, Protocol: []corev1.Protocol{corev1.ProtocolUDP, corev1.ProtocolTCP}[pr.weighted([]int{3, 1})]})
	}
	return ports
}

// ctlOwner: the name of the controller among the pod's owner references ("" if none).
func ctlOwner(p *corev1.Pod) string {
	for _, o := range p.OwnerReferences {
		if o.Controller != nil && *o.Controller {
			return o.Name
		}
	}
	return ""
}

// confusable derives a label set that a sloppy key (hash, string join) could mistake for l.
func confusable(r *rng, l map[string]string) map[string]string {
	keys := sortedKeys(l)
	out := map[string]string{}
	for k, v := range l {
		out[k] = v
	}
	switch k := r.intn(4); {
	case k <= 1 && len(keys) >= 2:
		// rotate the values over the keys
		for i, key := range keys {
			out[key] = l[keys[(i+1)%len(keys)]]
		}
	case k == 2 && len(keys) >= 2:
		delete(out, pick(r, keys))
	default:
		key := pick(r, keys)
		for _, v := range podVals {
			if v != l[key] {
				out[key] = v
			}
		}
	}
	return out
}

func (g *hGen) mkNetpol(ns, name string) *netv1.NetworkPolicy {
	r := g.r
	np := &netv1.NetworkPolicy{TypeMeta: metav1.TypeMeta{APIVersion: "networking.k8s.io/v1", Kind: "NetworkPolicy"}, ObjectMeta: metav1.ObjectMeta{Name: name, Namespace: ns}}
	np.Spec.PodSelector = g.sel(podKeys, podVals)
	peer := func() []netv1.NetworkPolicyPeer {
		var ps []netv1.NetworkPolicyPeer
		for i, n := 0, r.between(0, 2); i < n; i++ {
			switch r.intn(4) {
			case 0:
				ps = append(ps, netv1.NetworkPolicyPeer{IPBlock: &netv1.IPBlock{CIDR: pick(r, []string{"10.0.0.0/8", "192.168.0.0/16", "0.0.0.0/0"})}})
			case 1:
				s := g.sel(nsKeys, nsVals)
				ps = append(ps, netv1.NetworkPolicyPeer{NamespaceSelector: &s})
			case 2:
				s, s2 := g.sel(nsKeys, nsVals), g.sel(podKeys, podVals)
				ps = append(ps, netv1.NetworkPolicyPeer{NamespaceSelector: &s, PodSelector: &s2})
			default:
				s := g.sel(podKeys, podVals)
				ps = append(ps, netv1.NetworkPolicyPeer{PodSelector: &s})
			}
		}
		return ps
	}
	ports := func(named bool) []netv1.NetworkPolicyPort {
		if r.chance(1, 3) {
			return nil
		}
		pr := corev1.Protocol(g.proto())
		switch k := r.intn(3); {
		case named && r.intn(3) < g.named:
			v := intstr.FromString("http")
			tcp := corev1.ProtocolTCP
			return []netv1.NetworkPolicyPort{{Protocol: &tcp, Port: &v}}
		case k == 1:
			v := intstr.FromInt32(80)
			e := int32(443)
			return []netv1.NetworkPolicyPort{{Protocol: &pr, Port: &v, EndPort: &e}}
		default:
			v := intstr.FromInt32(pick(r, []int32{80, 8080, 53, 443}))
			return []netv1.NetworkPolicyPort{{Protocol: &pr, Port: &v}}
		}
	}
	for i, n := 0, r.between(0, 2); i < n; i++ {
		np.Spec.Ingress = append(np.Spec.Ingress, netv1.NetworkPolicyIngressRule{From: peer(), Ports: ports(true)})
	}
	for i, n := 0, r.between(0, 2); i < n; i++ {
		np.Spec.Egress = append(np.Spec.Egress, netv1.NetworkPolicyEgressRule{To: peer(), Ports: ports(g.odd)})
	}
	switch r.intn(4) {
	case 1:
		np.Spec.PolicyTypes = []netv1.PolicyType{netv1.PolicyTypeIngress}
	case 2:
		np.Spec.PolicyTypes = []netv1.PolicyType{netv1.PolicyTypeEgress}
	case 3:
		np.Spec.PolicyTypes = []netv1.PolicyType{netv1.PolicyTypeIngress, netv1.PolicyTypeEgress}
	}
	return np
}

func (g *hGen) subject() apisv1a.AdminNetworkPolicySubject {
	r := g.r
	if r.chance(1, 2) {
		s := g.sel(nsKeys, nsVals)
		return apisv1a.AdminNetworkPolicySubject{Namespaces: &s}
	}
	return apisv1a.AdminNetworkPolicySubject{Pods: &apisv1a.NamespacedPod{NamespaceSelector: g.sel(nsKeys, nsVals), PodSelector: g.sel(podKeys, podVals)}}
}

func (g *hGen) anpPorts() *[]apisv1a.AdminNetworkPolicyPort {
	r := g.r
	if r.chance(1, 2) {
		return nil
	}
	if g.named > 0 && r.chance(1, 4) {
		// a port given by name: resolved per destination pod, ignored (with a warning) where the pod has no such port
		n := pick(r, []string{"http", "http", "dns"})
		if r.chance(1, 3) {
			return &[]apisv1a.AdminNetworkPolicyPort{{NamedPort: &n}, {PortNumber: &apisv1a.Port{Protocol: corev1.Protocol(pick(r, hProtos)), Port: pick(r, []int32{80, 8080, 53, 443})}}}
		}
		return &[]apisv1a.AdminNetworkPolicyPort{{NamedPort: &n}}
	}
	if r.chance(1, 2) {
		return &[]apisv1a.AdminNetworkPolicyPort{{PortRange: &apisv1a.PortRange{Protocol: corev1.Protocol(pick(r, hProtos)), Start: 53, End: 443}}}
	}
	return &[]apisv1a.AdminNetworkPolicyPort{{PortNumber: &apisv1a.Port{Protocol: corev1.Protocol(pick(r, hProtos)), Port: pick(r, []int32{80, 8080, 53, 443})}}}
}

func (g *hGen) mkANP(name string) *apisv1a.AdminNetworkPolicy {
	r := g.r
	a := &apisv1a.AdminNetworkPolicy{TypeMeta: metav1.TypeMeta{APIVersion: "policy.networking.k8s.io/v1alpha1", Kind: "AdminNetworkPolicy"}, ObjectMeta: metav1.ObjectMeta{Name: name}}
	a.Spec.Priority = g.prio[name]
	a.Spec.Subject = g.subject()
	ni, ne := r.between(0, 2), r.between(0, 2)
	if ni+ne == 0 {
		ni = 1
	}
	for i := 0; i < ni; i++ {
		s := g.subject()
		a.Spec.Ingress = append(a.Spec.Ingress, apisv1a.AdminNetworkPolicyIngressRule{Action: pick(r, anpActions), From: []apisv1a.AdminNetworkPolicyIngressPeer{{Namespaces: s.Namespaces, Pods: s.Pods}}, Ports: g.anpPorts()})
	}
	for i := 0; i < ne; i++ {
		s := g.subject()
		a.Spec.Egress = append(a.Spec.Egress, apisv1a.AdminNetworkPolicyEgressRule{Action: pick(r, anpActions), To: []apisv1a.AdminNetworkPolicyEgressPeer{{Namespaces: s.Namespaces, Pods: s.Pods}}, Ports: g.anpPorts()})
	}
	return a
}

func (g *hGen) mkBANP(name string) *apisv1a.BaselineAdminNetworkPolicy {
	r := g.r
	b := &apisv1a.BaselineAdminNetworkPolicy{TypeMeta: metav1.TypeMeta{APIVersion: "policy.networking.k8s.io/v1alpha1", Kind: "BaselineAdminNetworkPolicy"}, ObjectMeta: metav1.ObjectMeta{Name: name}}
	b.Spec.Subject = g.subject()
	acts := []apisv1a.BaselineAdminNetworkPolicyRuleAction{apisv1a.BaselineAdminNetworkPolicyRuleActionAllow, apisv1a.BaselineAdminNetworkPolicyRuleActionDeny}
	s := g.subject()
	if r.chance(1, 2) {
		b.Spec.Ingress = []apisv1a.BaselineAdminNetworkPolicyIngressRule{{Action: pick(r, acts), From: []apisv1a.AdminNetworkPolicyIngressPeer{{Namespaces: s.Namespaces, Pods: s.Pods}}, Ports: g.anpPorts()}}
	}
	s = g.subject()
	if len(b.Spec.Ingress) == 0 || r.chance(1, 2) {
		b.Spec.Egress = []apisv1a.BaselineAdminNetworkPolicyEgressRule{{Action: pick(r, acts), To: []apisv1a.AdminNetworkPolicyEgressPeer{{Namespaces: s.Namespaces, Pods: s.Pods}}, Ports: g.anpPorts()}}
	}
	return b
}

func (g *hGen) podName() string {
	ns := g.ns()
	if g.defNS && ns == "default" && (g.bareDefault || g.r.chance(1, 3)) {
		ns = "" // a pod manifest without the namespace field: for the engine a pod of its own ("/p1"), evaluated with the default namespace object
	}
	return fmt.Sprintf("%s/p%d", ns, g.r.intn(g.podN))
}

func (g *hGen) peerStr() string {
	r := g.r
	if r.chance(1, 8) {
		return pick(r, hIPs)
	}
	if len(g.pods) > 0 && r.chance(7, 8) {
		return pick(r, sortedKeys(g.pods))
	}
	return g.podName()
}

func (g *hGen) newQuery() job.Step {
	q := job.Step{Kind: job.Query, Src: g.peerStr(), Dst: g.peerStr(), Proto: g.proto(), Port: pick(g.r, g.qports)}
	if g.odd && g.r.chance(1, 4) {
		q.Port = pick(g.r, []string{"http", "http", "dns", ""})
	}
	if len(g.touched) > 0 && g.r.chance(1, 2) {
		if g.r.chance(2, 3) {
			q.Dst = pick(g.r, g.touched)
		} else {
			q.Src = pick(g.r, g.touched)
		}
		if g.r.chance(1, 2) {
			q.Proto = "TCP"
		}
	}
	return q
}

func (g *hGen) queries(n int) {
	// queries already asked about the pods the latest mutation touched
	var near []job.Step
	for _, q := range g.asked {
		for _, t := range g.touched {
			if q.Src == t || q.Dst == t {
				near = append(near, q)
				break
			}
		}
	}
	for i := 0; i < n; i++ {
		var q job.Step
		if len(near) > 0 && g.r.chance(1, 2) {
			q = pick(g.r, near)
		} else if len(g.asked) > 0 && g.r.chance(1, 2) {
			q = pick(g.r, g.asked) // re-ask: a stale verdict gets its chance to be served
		} else {
			q = g.newQuery()
			g.asked = append(g.asked, q)
		}
		g.steps = append(g.steps, q)
	}
}

func splitKey(k string) (string, string) {
	i := strings.Index(k, "/")
	return k[:i], k[i+1:]
}

func (g *hGen) mutate() {
	r := g.r
	w := []int{
		10, // 0 insert/update pod
		5,  // 1 delete pod
		6,  // 2 insert/relabel namespace
		2,  // 3 delete namespace
		8,  // 4 insert netpol
		5,  // 5 delete netpol
		7,  // 6 insert ANP
		5,  // 7 delete ANP
		4,  // 8 insert BANP
		3,  // 9 delete BANP
		2,  // 10 setResources
		1,  // 11 clear
		2,  // 12 insert that must fail
		4,  // 13 re-port a whole workload (same names, labels and owner; other container ports)
		3,  // 14 recycle a single-pod workload: ask, delete, re-create with the next port epoch, ask again
		1,  // 15 recycle a whole workload under cache pressure (see below)
	}
	delOp := func() string { return pick(r, []string{"delete", "delete", "deleteCopy"}) }
	if g.weights == nil {
		g.weights = w
	}
	switch r.weighted(g.weights) {
	case 0:
		k := g.podName()
		if len(g.pods) > 0 && r.chance(1, 2) {
			k = pick(r, sortedKeys(g.pods)) // update
		}
		ns, name := splitKey(k)
		p := g.mkPod(ns, name)
		g.pods[k] = p
		g.add(g.insOp(), g.obj("Pod", p))
	case 1:
		k := g.podName() // probably absent
		if len(g.pods) > 0 && r.chance(3, 4) {
			k = pick(r, sortedKeys(g.pods))
		}
		ns, name := splitKey(k)
		p, ok := g.pods[k]
		if !ok {
			p = g.mkPod(ns, name)
		}
		delete(g.pods, k)
		if len(p.OwnerReferences) > 0 {
			// the last pod of a workload goes: whatever comes back under that owner is a new rollout
			// and may have other container ports
			ok, left := p.Namespace+"/"+ctlOwner(p), 0
			for _, q := range g.pods {
				if len(q.OwnerReferences) > 0 && q.Namespace+"/"+ctlOwner(q) == ok {
					left++
				}
			}
			if left == 0 {
				g.epoch[ok]++
			}
		}
		g.add(delOp(), g.obj("Pod", p))
	case 2:
		n := g.ns()
		g.nss[n] = true
		g.add(g.insOp(), g.obj("Namespace", g.mkNamespace(n)))
	case 3:
		n := g.ns()
		delete(g.nss, n)
		g.add(delOp(), g.obj("Namespace", g.mkNamespace(n)))
	case 4:
		k := fmt.Sprintf("%s/np%d", g.ns(), r.intn(4))
		ns, name := splitKey(k)
		np := g.mkNetpol(ns, name)
		if _, dup := g.nps[k]; !dup {
			g.nps[k] = np
		}
		g.add("insert", g.obj("NetworkPolicy", np))
	case 5:
		k := fmt.Sprintf("%s/np%d", g.ns(), r.intn(4))
		if len(g.nps) > 0 && r.chance(3, 4) {
			k = pick(r, sortedKeys(g.nps))
		}
		ns, name := splitKey(k)
		np, ok := g.nps[k]
		if !ok {
			np = g.mkNetpol(ns, name)
		}
		delete(g.nps, k)
		g.add(delOp(), g.obj("NetworkPolicy", np))
	case 6:
		name := fmt.Sprintf("anp%d", r.intn(g.anpN))
		a := g.mkANP(name)
		if _, dup := g.anps[name]; !dup {
			g.anps[name] = a
		}
		g.add("insert", g.obj("AdminNetworkPolicy", a))
	case 7:
		name := fmt.Sprintf("anp%d", r.intn(g.anpN))
		if len(g.anps) > 0 && r.chance(3, 4) {
			name = pick(r, sortedKeys(g.anps))
		}
		a, ok := g.anps[name]
		if !ok {
			a = g.mkANP(name)
		}
		delete(g.anps, name)
		g.add(delOp(), g.obj("AdminNetworkPolicy", a))
		if len(g.prioPool) > 0 && r.chance(1, 2) {
			// the name comes back with another priority (never one that any other name has or had):
			// its place among the others moves
			g.prio[name], g.prioPool = int32(g.prioPool[0]), g.prioPool[1:]
		}
	case 8:
		g.banp = true
		g.add("insert", g.obj("BaselineAdminNetworkPolicy", g.mkBANP("default")))
	case 9:
		name := "default"
		if r.chance(1, 4) {
			name = "other"
		} else {
			g.banp = false
		}
		g.add(delOp(), g.obj("BaselineAdminNetworkPolicy", g.mkBANP(name)))
	case 10:
		// fresh policy names and valid pods; a third of the batches ends in a taken policy name and is
		// applied only half-way (its pods never arrive, so they are not believed in either)
		failing := r.chance(1, 3) && len(g.nps) > 0
		var objs []job.Obj
		for i, n := 0, r.between(1, 2); i < n; i++ {
			k := g.podName()
			ns, name := splitKey(k)
			p := g.mkPod(ns, name)
			if !failing {
				g.pods[k] = p
			}
			objs = append(objs, g.obj("Pod", p))
		}
		if r.chance(1, 2) {
			n := g.ns()
			g.nss[n] = true
			objs = append(objs, g.obj("Namespace", g.mkNamespace(n)))
		}
		if r.chance(1, 2) {
			k := fmt.Sprintf("%s/sr%d", g.ns(), len(g.steps))
			ns, name := splitKey(k)
			np := g.mkNetpol(ns, name)
			g.nps[k] = np
			objs = append(objs, g.obj("NetworkPolicy", np))
		}
		if failing {
			// a batch that fails half-way: a policy name that is already taken comes last among the
			// policies, so what precedes it (namespaces, fresh policies) is applied and the pods are not
			k := pick(r, sortedKeys(g.nps))
			ns, name := splitKey(k)
			objs = append(objs, g.obj("NetworkPolicy", g.mkNetpol(ns, name)))
			n := pick(r, g.nsNames[:g.nsN])
			g.nss[n] = true
			objs = append(objs, g.obj("Namespace", g.mkNamespace(n)))
		}
		g.add("setResources", objs...)
	case 11:
		ghostPods, ghostNps, ghostAnps, hadBANP := g.pods, g.nps, g.anps, g.banp
		g.pods, g.nps, g.anps, g.nss, g.banp = map[string]*corev1.Pod{}, map[string]*netv1.NetworkPolicy{}, map[string]*apisv1a.AdminNetworkPolicy{}, map[string]bool{}, false
		g.add("clear")
		if r.chance(1, 2) {
			// the aftermath of a clear: the engine is filled again with other objects, and then objects that were there
			// before the clear (and are gone now) are deleted once more. Nothing the engine kept on the side for the
			// old objects (indexes, sorted lists, owner tables) may act on the new ones.
			for _, n := range g.nsNames[:g.nsN] {
				g.nss[n] = true
				g.add("insert", g.obj("Namespace", g.mkNamespace(n)))
			}
			for i, k := 0, r.between(2, 4); i < k; i++ {
				key := g.podName()
				ns, name := splitKey(key)
				p := g.mkPod(ns, name)
				g.pods[key] = p
				g.add("insert", g.obj("Pod", p))
			}
			for i, k := 0, r.between(1, 3); i < k; i++ {
				name := fmt.Sprintf("anp%d", r.intn(g.anpN))
				if _, dup := g.anps[name]; dup {
					continue
				}
				if _, was := ghostAnps[name]; was && r.chance(2, 3) {
					continue // the old names mostly stay away, so that deleting them below is a delete of something absent
				}
				a := g.mkANP(name)
				g.anps[name] = a
				g.add("insert", g.obj("AdminNetworkPolicy", a))
			}
			if r.chance(1, 2) {
				k := fmt.Sprintf("%s/np%d", g.ns(), r.intn(4))
				if _, dup := g.nps[k]; !dup {
					ns, name := splitKey(k)
					g.nps[k] = g.mkNetpol(ns, name)
					g.add("insert", g.obj("NetworkPolicy", g.nps[k]))
				}
			}
			if r.chance(1, 3) {
				g.banp = true
				g.add("insert", g.obj("BaselineAdminNetworkPolicy", g.mkBANP("default")))
			}
			g.queries(r.between(2, 5))
			for _, name := range sortedKeys(ghostAnps) {
				if _, back := g.anps[name]; !back && r.chance(2, 3) {
					g.add(delOp(), g.obj("AdminNetworkPolicy", ghostAnps[name]))
				}
			}
			for _, k := range sortedKeys(ghostNps) {
				if _, back := g.nps[k]; !back && r.chance(1, 2) {
					g.add(delOp(), g.obj("NetworkPolicy", ghostNps[k]))
				}
			}
			for _, k := range sortedKeys(ghostPods) {
				if _, back := g.pods[k]; !back && r.chance(1, 2) {
					g.add(delOp(), g.obj("Pod", ghostPods[k]))
				}
			}
			if hadBANP && !g.banp && r.chance(1, 2) {
				g.add(delOp(), g.obj("BaselineAdminNetworkPolicy", g.mkBANP("default")))
			}
		}
	case 13:
		// all pods of one owner are re-inserted back to back with the next port epoch (a rollout);
		// no query is generated in between, so the workload is never observed half-way
		var owned []string
		for _, k := range sortedKeys(g.pods) {
			if len(g.pods[k].OwnerReferences) > 0 {
				owned = append(owned, k)
			}
		}
		if len(owned) == 0 {
			return
		}
		first := g.pods[pick(r, owned)]
		ok := first.Namespace + "/" + ctlOwner(first)
		g.epoch[ok]++
		for _, k := range owned {
			p := g.pods[k]
			if p.Namespace+"/"+ctlOwner(p) != ok || fmt.Sprint(p.Labels) != fmt.Sprint(first.Labels) {
				continue
			}
			np := p.DeepCopy()
			np.Spec.Containers[0].Ports = ownerPorts(ok, p.Labels, g.epoch[ok])
			g.pods[k] = np
			g.add("insert", g.obj("Pod", np))
		}
	case 14:
		// a workload with one pod goes away completely and comes back (same name, owner and labels,
		// next port epoch); the questions asked before are asked again afterwards
		var single []string
		for _, k := range sortedKeys(g.pods) {
			p := g.pods[k]
			if len(p.OwnerReferences) == 0 {
				continue
			}
			n := 0
			for _, q := range g.pods {
				if len(q.OwnerReferences) > 0 && q.Namespace == p.Namespace && ctlOwner(q) == ctlOwner(p) {
					n++
				}
			}
			if n == 1 {
				single = append(single, k)
			}
		}
		if len(single) == 0 {
			return
		}
		k := pick(r, single)
		p := g.pods[k]
		ok := p.Namespace + "/" + ctlOwner(p)
		for i, n := 0, r.between(1, 3); i < n; i++ {
			q := job.Step{Kind: job.Query, Src: g.peerStr(), Dst: k, Proto: "TCP", Port: pick(r, []string{"80", "8080", "443"})}
			if r.chance(1, 4) {
				q.Src, q.Dst = q.Dst, q.Src
			}
			g.asked = append(g.asked, q)
			g.steps = append(g.steps, q)
		}
		if r.chance(1, 2) {
			// not deleted but orphaned (its controller went away with --cascade=orphan): the same pod, in place,
			// without an owner; adopted again below by a controller of the same name with the next ports
			orphan := p.DeepCopy()
			orphan.OwnerReferences = nil
			g.add("insert", g.obj("Pod", orphan))
			if r.chance(1, 2) {
				g.queries(r.between(1, 3))
			}
		} else {
			g.add(delOp(), g.obj("Pod", p))
		}
		g.epoch[ok]++
		np := p.DeepCopy()
		np.Spec.Containers[0].Ports = ownerPorts(ok, p.Labels, g.epoch[ok])
		g.pods[k] = np
		g.add("insert", g.obj("Pod", np))
	case 15:
		// a whole workload is replaced pod by pod while the cache is under pressure: right after a policy change
		// (which empties the cache) one question inside the workload and one from outside are asked, then a
		// dozen questions that do not involve it (with a small cache the oldest verdicts are evicted), then every
		// pod of the workload is deleted and comes back with the next ports, and the two questions are asked again
		groups := map[string][]string{}
		for _, k := range sortedKeys(g.pods) {
			p := g.pods[k]
			if len(p.OwnerReferences) > 0 {
				gk := p.Namespace + "/" + ctlOwner(p) + "/" + fmt.Sprint(p.Labels)
				groups[gk] = append(groups[gk], k)
			}
		}
		var big []string
		for _, gk := range sortedKeys(groups) {
			if len(groups[gk]) >= 2 {
				big = append(big, gk)
			}
		}
		if len(big) == 0 {
			return
		}
		gk := pick(r, big)
		members := groups[gk]
		var outside []string
		for _, ok := range sortedKeys(groups) {
			if ok != gk {
				outside = append(outside, groups[ok][0])
			}
		}
		if len(outside) == 0 {
			return
		}
		first := g.pods[members[0]]
		port := "80"
		for _, cp := range first.Spec.Containers[0].Ports {
			if cp.Name == "http" {
				port = fmt.Sprint(cp.ContainerPort)
			}
		}
		v := intstr.FromString("http")
		tcp := corev1.ProtocolTCP
		np := &netv1.NetworkPolicy{TypeMeta: metav1.TypeMeta{APIVersion: "networking.k8s.io/v1", Kind: "NetworkPolicy"},
			ObjectMeta: metav1.ObjectMeta{Name: fmt.Sprintf("np-press%d", len(g.steps)), Namespace: first.Namespace},
			Spec: netv1.NetworkPolicySpec{PolicyTypes: []netv1.PolicyType{netv1.PolicyTypeIngress},
				Ingress: []netv1.NetworkPolicyIngressRule{{Ports: []netv1.NetworkPolicyPort{{Protocol: &tcp, Port: &v}}}}}}
		g.nps[first.Namespace+"/"+np.Name] = np
		g.add("insert", g.obj("NetworkPolicy", np))
		ask := func(q job.Step) {
			g.asked = append(g.asked, q)
			g.steps = append(g.steps, q)
		}
		inside := job.Step{Kind: job.Query, Src: members[0], Dst: members[1], Proto: "TCP", Port: port}
		fromOut := job.Step{Kind: job.Query, Src: pick(r, outside), Dst: members[0], Proto: "TCP", Port: port}
		ask(inside)
		ask(fromOut)
		n, want := 0, r.between(8, 11) // around the size of the small cache: which of the two verdicts goes first is the point
		for _, a := range outside {
			for _, b := range outside {
				for _, pr := range hProtos {
					for _, po := range hPorts {
						if n < want && (a != b || len(outside) == 1) {
							ask(job.Step{Kind: job.Query, Src: a, Dst: b, Proto: pr, Port: po})
							n++
						}
					}
				}
			}
		}
		if r.chance(1, 2) {
			ask(fromOut) // asked again: now the most recently used
		}
		ok := first.Namespace + "/" + ctlOwner(first)
		for _, k := range members {
			g.add(delOp(), g.obj("Pod", g.pods[k]))
		}
		g.epoch[ok]++
		for _, k := range members {
			p2 := g.pods[k].DeepCopy()
			p2.Spec.Containers[0].Ports = ownerPorts(ok, p2.Labels, g.epoch[ok])
			g.pods[k] = p2
			g.add("insert", g.obj("Pod", p2))
		}
		g.steps = append(g.steps, fromOut, inside)
	default:
		switch r.intn(3) {
		case 0: // BANP with a name other than default
			g.add("insert", g.obj("BaselineAdminNetworkPolicy", g.mkBANP("other")))
		case 1: // pod that was never scheduled
			ns, name := splitKey(g.podName())
			p := g.mkPod(ns, name)
			p.Status = corev1.PodStatus{}
			g.add("insert", g.obj("Pod", p))
		default: // duplicate policy name
			if len(g.nps) > 0 {
				k := pick(r, sortedKeys(g.nps))
				ns, name := splitKey(k)
				g.add("insert", g.obj("NetworkPolicy", g.mkNetpol(ns, name)))
			} else {
				g.add("insert", g.obj("BaselineAdminNetworkPolicy", g.mkBANP("other")))
			}
		}
	}
}

// genHistory draws a history of about n steps.
func genHistory(r *rng, n int) *history {
	g := &hGen{r: r, pods: map[string]*corev1.Pod{}, nps: map[string]*netv1.NetworkPolicy{}, anps: map[string]*apisv1a.AdminNetworkPolicy{},
		nss: map[string]bool{}, prio: map[string]int32{}, ownerLb: map[string]map[string]string{}, epoch: map[string]int{}}
	g.drift = r.chance(1, 12) || os.Getenv("VERIF_C15_DRIFT") != ""
	g.nsN, g.podN = r.between(1, 3), r.between(2, 5)
	g.tcpOnly = r.chance(1, 3)
	g.named = r.between(0, 3)
	g.broad = r.chance(1, 2)
	base := []int{10, 5, 6, 2, 8, 5, 7, 5, 4, 3, 2, 1, 2, 4, 3, 1}
	for _, b := range base {
		g.weights = append(g.weights, b*pick(r, []int{0, 1, 1, 3}))
	}
	g.variants = r.chance(1, 4)
	g.nsNames = hNS
	if g.defNS = r.chance(1, 5); g.defNS {
		g.nsNames = []string{"default", "ns1", "ns2"}
	}
	g.bareDefault = g.defNS && r.chance(1, 2)
	g.odd = r.chance(1, 5)
	g.weights[0] += 2 // a history always has pods
	g.weights[2]++    // and namespaces
	g.qports = hPorts
	switch prof := r.intn(12); {
	case prof >= 10:
		// eviction profile: cache of 10 entries, many pods with owners, mutations that do not clear the
		// cache (pod inserts, updates, deletes), and bursts of distinct questions in between
		g.nsN, g.podN, g.owned, g.broad = r.between(1, 2), 5, true, true
		g.qBurst, g.forceSmallCache = r.between(6, 14), true
		g.weights = []int{10, 4, 0, 0, 1, 0, 0, 0, 0, 0, 1, 0, 0, 3, 3, 6}
	case prof < 2:
		// admin profile: few pods, broad selectors, and a churn of admin policies whose actions collide
		g.nsN, g.podN, g.broad, g.owned = r.between(1, 2), 3, true, true
		g.anpN, g.adminPre = 8, r.between(3, 6)
		g.weights = []int{3, 1, 1, 0, 1, 1, 8, 9, 2, 2, 0, 2, 0, 0, 0, 0}
	case prof < 4:
		// delete-and-recreate profile: workloads disappear completely and come back
		g.nsN, g.podN, g.tcpOnly, g.named, g.broad, g.owned = 1, 2, true, 3, true, true
		g.qports = []string{"80", "8080", "443"}
		g.weights = []int{6, 3, 1, 0, 6, 2, 0, 0, 0, 0, 0, 0, 0, 2, 10, 1}
	case prof < 6:
		// relabel profile: namespaces and pods keep losing and gaining labels under policies whose selectors
		// are matchExpressions, so that a removed key flips DoesNotExist / NotIn / Exists
		g.nsN, g.podN, g.owned, g.exprs = 2, 3, true, true
		g.weights = []int{6, 1, 12, 0, 5, 2, 4, 2, 1, 1, 1, 0, 0, 0, 0, 0}
	}
	if r.chance(1, 5) {
		// rollout profile: one namespace, few controlled pods, policies with named ports that really
		// select them, and whole-workload re-ports as the dominant mutation
		g.nsN, g.podN, g.tcpOnly, g.named, g.broad, g.owned = 1, 3, true, 3, true, true
		g.qports = []string{"80", "8080", "443"}
		g.weights = []int{6, 1, 1, 0, 8, 2, 0, 0, 0, 0, 1, 0, 0, 10, 2, 1}
	}
	pr := r.perm(1001)
	for i := 0; i < 8; i++ {
		g.prio[fmt.Sprintf("anp%d", i)] = int32(pr[i])
	}
	g.prioPool = pr[8:72]
	g.anpN = 5
	// most histories start from a populated world, some from nothing
	if r.chance(5, 6) {
		for _, n := range g.nsNames[:g.nsN] {
			if r.chance(5, 6) {
				g.nss[n] = true
				g.add("insert", g.obj("Namespace", g.mkNamespace(n)))
			}
		}
		for i, k := 0, r.between(2, 5); i < k; i++ {
			key := g.podName()
			ns, name := splitKey(key)
			p := g.mkPod(ns, name)
			g.pods[key] = p
			g.add("insert", g.obj("Pod", p))
		}
	}
	for i := 0; i < g.adminPre; i++ {
		name := fmt.Sprintf("anp%d", i)
		a := g.mkANP(name)
		g.anps[name] = a
		g.add("insert", g.obj("AdminNetworkPolicy", a))
	}
	g.queries(g.r.between(2, 6))
	for len(g.steps) < n {
		g.touched = nil
		g.mutate()
		g.queries(g.r.between(1, 4))
		for i := 0; i < g.qBurst; i++ {
			q := g.newQuery()
			g.asked = append(g.asked, q)
			g.steps = append(g.steps, q)
		}
	}
	h := &history{steps: g.steps, cache: 0}
	if r.chance(1, 2) || g.forceSmallCache {
		h.cache = 10
	}
	return h
}

// ---- oracle ---------------------------------------------------------------------------

type c15Finding struct {
	class string // panic | stale | order | model
	step  int
	desc  string
}

func answer(a *bool, e string) string {
	if a == nil {
		return "error(" + e + ")"
	}
	return fmt.Sprint(*a)
}

func same(a *bool, ae string, b *bool, be string) bool {
	if (a == nil) != (b == nil) {
		return false
	}
	if a == nil {
		return true // both failed: error texts are not compared
	}
	return *a == *b
}

// c15Oracle evaluates a history trace. It returns the first finding, or nil.
func c15Oracle(steps []job.Step, t *job.Trace) *c15Finding {
	pods := map[string]podInfo{}
	tainted := map[string]bool{} // verdict keys (by owner and label set) that were asked about while a workload was conflated
	for i := range t.Events {
		e := &t.Events[i]
		st := &steps[e.Step]
		if st.Kind == job.Op && e.OK && e.Panic == nil {
			trackPods(pods, st)
		}
		if e.Panic != nil {
			where := "?"
			if len(e.Panic.Frames) > 0 {
				where = e.Panic.Frames[0]
			}
			return &c15Finding{"panic", i, fmt.Sprintf("%s panicked: %s at %s", opDesc(st), e.Panic.Value, where)}
		}
		if st.Kind != job.Query {
			continue
		}
		if strings.HasPrefix(e.FreshErr, "fresh insert") || strings.HasPrefix(e.FreshRErr, "fresh insert") {
			return &c15Finding{"model", i, "a fresh engine refuses an object the model holds: " + e.FreshErr + e.FreshRErr}
		}
		if !same(e.Fresh, e.FreshErr, e.FreshR, e.FreshRErr) {
			return &c15Finding{"order", i, fmt.Sprintf("%s: fresh engine filled in canonical order says %s, filled in reverse order says %s",
				opDesc(st), answer(e.Fresh, e.FreshErr), answer(e.FreshR, e.FreshRErr))}
		}
		vkey := pods[st.Src].group + "|" + pods[st.Dst].group + "|" + st.Proto + "|" + st.Port
		if conflated(pods, st.Src) || conflated(pods, st.Dst) {
			// the verdict cache is keyed by (owner, label set) by design; a workload observed while its
			// pods disagree on container ports is outside what the cache promises, and is not compared.
			// What was asked in that state may have been cached under the workload's key, so the same
			// question about the same workloads stays out of the comparison for the rest of the history.
			tainted[vkey] = true
			continue
		}
		if tainted[vkey] {
			continue
		}
		if !same(e.Allowed, e.QErr, e.Fresh, e.FreshErr) {
			return &c15Finding{"stale", i, fmt.Sprintf("%s: live engine says %s, a fresh engine with the same objects says %s",
				opDesc(st), answer(e.Allowed, e.QErr), answer(e.Fresh, e.FreshErr))}
		}
	}
	return nil
}

type podInfo struct{ group, ports string }

// trackPods mirrors, for pods only, what the node's reference model does with a successful op.
func trackPods(pods map[string]podInfo, st *job.Step) {
	if st.Op == "clear" {
		for k := range pods {
			delete(pods, k)
		}
		return
	}
	for _, o := range st.Objs {
		if o.Kind != "Pod" {
			continue
		}
		var p corev1.Pod
		if json.Unmarshal(o.JSON, &p) != nil {
			continue
		}
		key := p.Namespace + "/" + p.Name
		if st.Op == "delete" || st.Op == "deleteCopy" {
			delete(pods, key)
			continue
		}
		owner := ""
		for _, or := range p.OwnerReferences {
			if or.Controller != nil && *or.Controller {
				owner = or.Name
				break
			}
		}
		if owner == "" {
			delete(pods, key) // ownerless pods are never cached
			continue
		}
		var ports []corev1.ContainerPort
		for _, c := range p.Spec.Containers {
			ports = append(ports, c.Ports...)
		}
		pods[key] = podInfo{group: fmt.Sprintf("%s/%s/%v", p.Namespace, owner, p.Labels), ports: fmt.Sprint(ports)}
	}
}

// conflated: the named pod belongs to an (owner, label set) group whose pods differ in ports.
func conflated(pods map[string]podInfo, name string) bool {
	me, ok := pods[name]
	if !ok {
		return false
	}
	for _, k := range sortedKeys(pods) {
		if o := pods[k]; o.group == me.group && o.ports != me.ports {
			return true
		}
	}
	return false
}

func opDesc(s *job.Step) string {
	if s.Kind == job.Query {
		return fmt.Sprintf("CheckIfAllowed(%s, %s, %s, %s)", s.Src, s.Dst, s.Proto, s.Port)
	}
	k := ""
	if len(s.Objs) > 0 {
		k = s.Objs[0].Kind
	}
	return fmt.Sprintf("%s(%s)", s.Op, k)
}

// lastMutation: kind of the last mutating op before step i (for the signature).
func lastMutation(steps []job.Step, i int) string {
	for k := i; k >= 0; k-- {
		if steps[k].Kind == job.Op {
			return opDesc(&steps[k])
		}
	}
	return "none"
}

type c15Checker struct{}

func (c15Checker) recheck(r *Replay, res []*Result) Verdict {
	if len(res) != 1 || r.Runs[0].Job == nil {
		return Verdict{Infra: "C15 replay needs one history run"}
	}
	x := res[0]
	if x.Trace == nil {
		return Verdict{Violated: true, Desc: fmt.Sprintf("the process died (exit %d): %s", x.Exit, tail(x.Stderr, 300)), Digests: []string{fmt.Sprint("exit=", x.Exit)}}
	}
	f := c15Oracle(r.Runs[0].Job.Steps, x.Trace)
	if f == nil {
		return Verdict{Desc: "every query agrees with the fresh engines", Digests: []string{"clean"}}
	}
	if f.class == "model" {
		return Verdict{Infra: f.desc}
	}
	want := r.Detail["class"]
	if want != "" && want != f.class {
		return Verdict{Desc: "another class now: " + f.class + ": " + f.desc, Digests: []string{f.class}}
	}
	return Verdict{Violated: true, Desc: f.desc, Digests: []string{f.class + "@" + fmt.Sprint(f.step)}}
}

func init() {
	checkers["C15"] = c15Checker{}
	runners["C15"] = runC15
}

func runC15(tier string, seed uint64) int {
	rp := newReport("C15", tier, seed)
	n := 6000
	if tier == "thorough" {
		n = 300000
	}
	if v := envInt("VERIF_C15_N"); v > 0 {
		n = v
	}
	type out struct {
		f       *c15Finding
		steps   []job.Step
		job     *job.Job
		infra   string
		queries int
		hitsMut int // queries served from the cache after at least one mutation
		hits    int
		evict   bool
		failed  int
		bigrams map[string]bool
		trans   map[string]bool
		died    string
	}
	outs := make([]out, n)
	parallel(n, workers, func(i int) {
		r := sub(seed, "C15", "hist", i)
		h := genHistory(r, r.between(10, 80))
		j := h.job(fmt.Sprintf("hist:%d", i), r.u64()>>1)
		o := &outs[i]
		o.steps, o.job = h.steps, j
		res := execute(&Run{Job: j})
		if res.Infra != "" {
			o.infra = res.Infra
			return
		}
		if res.Trace == nil || res.Trace.Fail != "" {
			o.died = fmt.Sprintf("exit %d: %s", res.Exit, tail(res.Stderr, 300))
			return
		}
		o.f = c15Oracle(h.steps, res.Trace)
		o.bigrams, o.trans = map[string]bool{}, map[string]bool{}
		prevHits, prevKeys, prevKind := 0, 0, "start"
		mutations := 0
		askedAt := map[string]int{} // query -> number of mutations seen when it was last asked
		for k := range res.Trace.Events {
			e := &res.Trace.Events[k]
			st := &h.steps[e.Step]
			kind := st.Kind
			if st.Kind == job.Op {
				kind = st.Op
				if len(st.Objs) > 0 {
					kind += ":" + st.Objs[0].Kind
				}
				if !e.OK {
					o.failed++
					kind += "!"
				}
				mutations++
			} else {
				o.queries++
				qk := st.Src + "|" + st.Dst + "|" + st.Proto + "|" + st.Port
				if e.CacheHits > prevHits {
					o.hits++
					if at, ok := askedAt[qk]; ok && mutations > at {
						o.hitsMut++ // served from the cache although the engine was mutated since the question was last asked
					}
				}
				askedAt[qk] = mutations
				if j.CacheSize == 10 && e.CacheKeys == 10 && prevKeys == 10 && e.CacheHits == prevHits && e.Allowed != nil {
					o.evict = true // a verdict was added to a full cache: something was evicted
				}
			}
			if e.CacheKeys < prevKeys {
				o.trans[kind+":shrink"] = true
			} else if e.CacheKeys > prevKeys {
				o.trans[kind+":grow"] = true
			}
			o.bigrams[prevKind+">"+kind] = true
			prevKind, prevHits, prevKeys = kind, e.CacheHits, e.CacheKeys
		}
	})
	var queries, hits, hitsMut, evicts, failed, nontrivial int
	bigrams, trans := map[string]bool{}, map[string]bool{}
	var bad []int
	for i := range outs {
		o := &outs[i]
		if o.infra != "" {
			infra("C15: %s", o.infra)
		}
		if o.died != "" {
			o.f = &c15Finding{"panic", -1, "the process died: " + o.died}
		}
		queries += o.queries
		hits += o.hits
		hitsMut += o.hitsMut
		failed += o.failed
		if o.evict {
			evicts++
		}
		if o.hitsMut > 0 {
			nontrivial++
		}
		for k := range o.bigrams {
			bigrams[k] = true
		}
		for k := range o.trans {
			trans[k] = true
		}
		if o.f != nil {
			bad = append(bad, i)
		}
	}
	reported, tried := 0, 0
	for _, i := range bad {
		o := &outs[i]
		if o.f.class == "model" {
			infra("C15: history %d: %s", i, o.f.desc)
		}
		if reported >= 4 || tried >= 8 {
			fmt.Printf("note: %d further failing histories not minimised\n", len(bad)-reported)
			break
		}
		rep := c15Minimise(o.job, o.f, seed, i)
		if rep == nil {
			infra("C15: history %d (%s) did not reproduce during minimisation", i, o.f.desc)
		}
		if ok, why := confirm(rep, 3); !ok {
			infra("C15: witness for history %d does not replay: %s", i, why)
		}
		if rp.violation(rep) {
			reported++
		} else if knownFinding(rp.findings, rep.Property, rep.Sig) == nil {
			tried++ // a repeat of a signature already reported in this run (listed findings never count)
		}
	}
	var samples []interface{}
	for i := 0; i < n && len(samples) < 2; i += 1 + n/2 {
		var ops []string
		for k := range outs[i].steps {
			if k >= 25 {
				ops = append(ops, "...")
				break
			}
			ops = append(ops, opDesc(&outs[i].steps[k]))
		}
		samples = append(samples, map[string]interface{}{"history": i, "steps": len(outs[i].steps), "cache_size": outs[i].job.CacheSize, "ops": ops})
	}
	ev := &Evidence{PropertyID: "C15", Tier: tier, Seed: int64(seed), Level: "exploration", WallS: sinceS(rp.start), Violations: rp.violations,
		Coverage: map[string]interface{}{
			"evaluations":         n,
			"distinct_nontrivial": nontrivial,
			"rule": "one evaluation = one seeded history (10-80 API calls on one live PolicyEngine, one OS process, one map-order schedule); every query is also put to two fresh engines built from the reference model; " +
				"a history is non-trivial when at least one query was answered from the verdict cache although a mutating call happened since the same question was last asked (histories are distinct by seed-derived content)",
			"samples":                       samples,
			"queries_checked":               queries,
			"cache_hits":                    hits,
			"cache_hits_across_a_mutation":  hitsMut,
			"histories_with_eviction":       evicts,
			"operations_rejected_by_engine": failed,
			"distinct_op_bigrams":           len(bigrams),
			"distinct_cache_transitions":    len(trans),
			"failing_histories":             len(bad),
			"known_findings_observed":       len(rp.known),
			"runs_per_hour":                 perHour(n, rp.start),
			"fault_kinds":                   "delete of absent object, delete by copy, update in place, out-of-priority-order ANP insert, rejected inserts (duplicate name, second/misnamed BANP, unscheduled pod), ClearResources, cache size 10 (eviction), questions the engine cannot answer (a port by name: an error is an answer too), NetworkPolicies written without namespace, re-ports that change only the protocol of a named port",
			"simulated_time":                "none",
			"real_components":               "eval.PolicyEngine and everything below it; the oracle's fresh engines are the same real code",
			"stubbed_components":            "none; reference model = dictionary (kind, namespace, name) -> object, no policy semantics",
		},
		Assumptions: []string{
			"object kinds limited to those the update API can delete: Namespace, Pod, NetworkPolicy, AdminNetworkPolicy, BaselineAdminNetworkPolicy",
			"ANPs present at one time have distinct priorities; SetResources is only given arguments that cannot fail",
			"a misreading of policy semantics shared by the live and the fresh engine is invisible here by design",
		}}
	writeEvidence(ev)
	fmt.Printf("C15 %s seed=%d: %d histories, %d queries checked, %d cache hits across a mutation, %d failing histories, %d violations, %d known findings, %.1fs\n",
		tier, seed, n, queries, hitsMut, len(bad), rp.violations, len(rp.known), sinceS(rp.start))
	return rp.exitCode()
}

func c15Minimise(j *job.Job, f *c15Finding, seed uint64, idx int) *Replay {
	steps := j.Steps
	test := func(keep []int) bool {
		sub := make([]job.Step, 0, len(keep))
		for _, i := range keep {
			sub = append(sub, steps[i])
		}
		jj := *j
		jj.Steps = sub
		res := execute(&Run{Job: &jj})
		if res.Trace == nil {
			return f.class == "panic"
		}
		g := c15Oracle(sub, res.Trace)
		return g != nil && g.class == f.class
	}
	all := make([]int, len(steps))
	for i := range all {
		all[i] = i
	}
	if !test(all) {
		return nil
	}
	keep := ddmin(len(steps), test)
	sub := make([]job.Step, 0, len(keep))
	for _, i := range keep {
		sub = append(sub, steps[i])
	}
	jj := *j
	jj.Steps = sub
	jj.ID = j.ID + "/min"
	rep := &Replay{Property: "C15", Clause: "live engine == fresh engine on the same objects; no panic", Seed: seed, Scenario: fmt.Sprintf("hist:%d", idx),
		Runs: []Run{{Job: &jj}}, Detail: map[string]string{"class": f.class}}
	res, v := runReplay(rep)
	if v.Infra != "" || !v.Violated {
		return nil
	}
	g := &c15Finding{class: f.class, step: 0}
	if res[0].Trace != nil {
		if gg := c15Oracle(sub, res[0].Trace); gg != nil {
			g = gg
		}
	}
	var ops []string
	for k := range sub {
		ops = append(ops, opDesc(&sub[k]))
	}
	last := "none"
	if g.step >= 0 && res[0].Trace != nil && g.step < len(res[0].Trace.Events) {
		last = lastMutation(sub, res[0].Trace.Events[g.step].Step)
	}
	rep.Note = fmt.Sprintf("[%s] %s | minimised history (%d steps): %s", f.class, v.Desc, len(sub), strings.Join(ops, "; "))
	rep.Observed = v.Digests
	rep.Detail["last_mutation"] = last
	rep.Sig = "c15:" + f.class + ":" + strings.NewReplacer(" ", "").Replace(last)
	return rep
}
