package main

import (
	"bytes"
	"fmt"
	"path/filepath"
	"sort"
	"strings"

	"sigs.k8s.io/yaml"
	"verifsim/job"
)

// C18 — CLI, directory API and resource-info API agree.
//
// The separately linked k8snetpolicy binary is run as a simulated process (seeded map
// schedule, scratch cwd, captured stdout/stderr, -f target, exit status) next to a node
// execution of the library with the corresponding options on the same directory.
// Fault-free batch: stdout == library string, -f file == stdout, exit != 0 <=> library
// error, ResourceInfos API == directory API. Fault batch (output path): stdout must still
// equal the library string and either the exit status is non-zero or the file is exact.

type c18Case struct {
	twice      bool // an object is described twice, in places where walk order and path order may differ
	name       string
	docs       []Doc
	docs2      []Doc
	lay        Layout
	lay2       Layout
	files      []FSEntry // verbatim corpus directory instead of docs
	files2     []FSEntry
	cmd        string // list | diff
	fmt        string // "" = flag omitted
	exp        bool
	focus      string
	fail       bool
	verb       string // "", "-q", "-v"
	outf       string // "" | path
	fault      *Fault
	seed       uint64
	stale      bool   // the -f target already exists and holds a longer, older report
	dir2       string // diff: second directory as spelled on the command line ("b", or the first one again)
	flagsFirst bool   // persistent flags precede the subcommand
	dirSpell   string // list: how the directory is spelled ("a", "./a", "a/", absolute is not possible: the scratch root is unknown here)
}

// badFmt: the -o value is not one the command documents (json is a list format only).
func (c *c18Case) badFmt() bool {
	switch c.fmt {
	case "", "txt", "csv", "md", "dot":
		return false
	case "json":
		return c.cmd == "diff"
	}
	return true
}

func (c *c18Case) fs() []FSEntry {
	var fs []FSEntry
	if c.files != nil {
		fs = append(prefixFS("a", c.files), prefixFS("b", c.files2)...)
	} else {
		fs = append(c.lay.fs("a", c.docs), c.lay2.fs("b", c.docs2)...)
	}
	// the same two directories reached through links of their own (a directory argument may be spelled through one)
	fs = append(fs, FSEntry{Path: "la", Link: "a"}, FSEntry{Path: "lb", Link: "b"})
	if c.stale && strings.HasPrefix(c.outf, "out/res") {
		fs = append(fs, FSEntry{Path: c.outf, Text: strings.Repeat("stale report line from an earlier run => must not survive\n", 400)})
	}
	return fs
}

func (c *c18Case) cliArgs() []string {
	var a []string
	if c.cmd == "list" {
		d := "a"
		if c.dirSpell != "" {
			d = c.dirSpell
		}
		a = []string{"list", "--dirpath", d}
		if c.exp {
			a = append(a, "--exposure")
		}
		if c.focus != "" {
			a = append(a, "--focusworkload", c.focus)
		}
	} else {
		a = []string{"diff", "--dir1", "a", "--dir2", c.dir2}
	}
	if c.fmt != "" {
		a = append(a, "-o", c.fmt)
	}
	if c.fail {
		a = append(a, "--fail")
	}
	if c.verb != "" {
		a = append(a, c.verb)
	}
	if c.outf != "" {
		a = append(a, "-f", c.outf)
	}
	if c.flagsFirst {
		// the root command's persistent flags may come before the subcommand
		var head, tail []string
		for i := 1; i < len(a); i++ {
			switch a[i] {
			case "--dirpath":
				head = append(head, a[i], a[i+1])
				i++
			case "--fail", "-q", "-v":
				head = append(head, a[i])
			default:
				tail = append(tail, a[i])
			}
		}
		a = append(append(head, a[0]), tail...)
	}
	return a
}

func (c *c18Case) libSteps() []job.Step {
	if c.cmd == "list" {
		d := "a"
		if c.dirSpell != "" {
			d = c.dirSpell
		}
		s := job.Step{Kind: job.List, Dir: d, Fmt: c.fmt, Exposure: c.exp, Focus: c.focus, Stop: c.fail}
		s2 := s
		s2.API = "infos"
		return []job.Step{s, s2}
	}
	return []job.Step{{Kind: job.Diff, Dir1: "a", Dir2: c.dir2, Fmt: c.fmt, Stop: c.fail}}
}

func (c *c18Case) runs(cliSeed, libSeed uint64) []Run {
	fs := c.fs()
	cli := Run{FS: fs, CLI: c.cliArgs(), Seed: cliSeed, RealEx: true}
	if c.fault != nil {
		cli.Faults = []Fault{*c.fault}
	}
	lib := Run{FS: fs, Job: &job.Job{ID: c.name, MapSeed: libSeed, Steps: c.libSteps(), KeepOut: true}}
	return []Run{cli, lib}
}

// c18Judge compares one CLI process with one library execution. clause "" = agreement.
func c18Judge(res []*Result, outf string, faulty bool, badFmt bool) (clause, why string) {
	cli, lib := res[0], res[1]
	if badFmt {
		// an unsupported -o value is a usage error of the command line: it is not related to the
		// library (which, for an empty diff, never looks at the format). It must be refused.
		if _, _, dead := crashed(cli); !dead {
			if cli.Exit == 0 {
				return "usage", "an unsupported output format was accepted with exit status 0"
			}
			if cli.Stdout != "" {
				return "usage", fmt.Sprintf("an unsupported output format was refused but stdout carries %d bytes", len(cli.Stdout))
			}
		}
		return "", ""
	}
	if lib.Trace == nil || len(lib.Trace.Events) == 0 {
		return "", ""
	}
	e := &lib.Trace.Events[0]
	if e.Panic != nil {
		return "", "" // C12's
	}
	libErr := !e.OK
	if sig, what, dead := crashed(cli); dead {
		if !libErr {
			return "exit", fmt.Sprintf("the CLI process crashed (%s, %s) where the library call succeeded", what, sig)
		}
		return "", "" // both fail; the crash itself is C12's
	}
	if !faulty {
		if (cli.Exit != 0) != libErr {
			return "exit", fmt.Sprintf("exit status %d but the library call %s (%s)", cli.Exit, map[bool]string{true: "returned an error", false: "succeeded"}[libErr], e.Err)
		}
	} else if libErr && cli.Exit == 0 {
		return "exit", "exit status 0 although the library call returned an error: " + e.Err
	}
	if len(lib.Trace.Events) > 1 {
		// success or failure must agree between the two APIs too. Only when the directory scan itself reported errors
		// does the directory API know something the ResourceInfos API was never told (its caller holds the scan errors).
		e2 := &lib.Trace.Events[1]
		scanErrs := false
		for _, x := range e2.Errors {
			scanErrs = scanErrs || x.Location == "scan"
		}
		if e2.Panic == nil && !scanErrs && e2.OK != e.OK {
			return "infos", fmt.Sprintf("ResourceInfos API %s while the directory API %s (%s%s)", okStr(e2.OK), okStr(e.OK), e.Err, e2.Err)
		}
	}
	if libErr {
		if cli.Stdout != "" && !strings.HasPrefix(cli.Stdout, "Usage:") {
			// nothing but usage text may reach stdout when the command fails
			if !strings.Contains(cli.Stdout, "Usage:") {
				return "stdout", fmt.Sprintf("the library call failed but stdout carries %d bytes: %q", len(cli.Stdout), head(cli.Stdout, 120))
			}
		}
		return "", ""
	}
	if cli.Stdout != e.Out {
		n, x, y := firstDiffLine(cli.Stdout, e.Out)
		return "stdout", fmt.Sprintf("stdout differs from the library string at line %d: %q vs %q (lengths %d / %d)", n, x, y, len(cli.Stdout), len(e.Out))
	}
	if outf != "" && strings.HasPrefix(outf, "out/") {
		data, present := cli.Files[outf]
		if cli.Exit == 0 {
			if !present {
				return "file", "exit status 0 but the -f file does not exist"
			}
			if !bytes.Equal(data, []byte(cli.Stdout)) {
				return "file", fmt.Sprintf("exit status 0 but the -f file (%d bytes) differs from stdout (%d bytes)", len(data), len(cli.Stdout))
			}
		}
	}
	if len(lib.Trace.Events) > 1 {
		e2 := &lib.Trace.Events[1]
		if e2.Panic == nil {
			if !e2.OK {
				return "infos", fmt.Sprintf("ResourceInfos API %s while the directory API %s (%s)", okStr(e2.OK), okStr(e.OK), e2.Err)
			}
			if !sameStrings(e2.Conns, e.Conns) {
				return "infos", "ResourceInfos API and directory API return different connections: " + diffStrings(e.Conns, e2.Conns)
			}
			if e2.Out != e.Out {
				n, x, y := firstDiffLine(e.Out, e2.Out)
				return "infos", fmt.Sprintf("ResourceInfos API and directory API give different strings at line %d: %q vs %q", n, x, y)
			}
		}
	}
	return "", ""
}

func okStr(b bool) string {
	if b {
		return "succeeds"
	}
	return "fails"
}

func head(s string, n int) string {
	if len(s) > n {
		return s[:n]
	}
	return s
}

type c18Checker struct{}

func (c18Checker) recheck(r *Replay, res []*Result) Verdict {
	if len(res) != 2 {
		return Verdict{Infra: "C18 replay needs two runs"}
	}
	cl, why := c18Judge(res, r.Detail["outf"], r.Detail["faulty"] == "true", r.Detail["badfmt"] == "true")
	if cl == "" {
		return Verdict{Desc: "CLI and library agree", Digests: []string{"agree"}}
	}
	return Verdict{Violated: true, Desc: "(" + cl + ") " + why, Digests: []string{cl}}
}

func init() {
	checkers["C18"] = c18Checker{}
	runners["C18"] = runC18
}

// twiceDescribed stores one namespace, pod or workload a second time with other labels (an older export left in
// the tree). Which description the analysis uses is the order in which the directory is read; the two
// descriptions sit in places where that order and the order of the path strings differ (a directory next to a
// file named after it) or agree. Whatever the choice, every API and the command line must make the same one.
func twiceDescribed(r *rng, docs []Doc, lay Layout) ([]Doc, Layout) {
	var cand []int
	for i, d := range docs {
		switch d.Kind {
		case "Namespace", "Pod", "Deployment", "StatefulSet", "DaemonSet", "ReplicaSet", "Job":
			cand = append(cand, i)
		}
	}
	if len(cand) == 0 {
		return docs, lay
	}
	i := pick(r, cand)
	var m map[string]interface{}
	if err := yaml.Unmarshal([]byte(docs[i].Text), &m); err != nil {
		return docs, lay
	}
	holder := m
	if docs[i].Kind != "Namespace" && docs[i].Kind != "Pod" {
		spec, _ := m["spec"].(map[string]interface{})
		tmpl, _ := spec["template"].(map[string]interface{})
		if tmpl == nil {
			return docs, lay
		}
		holder = tmpl
	}
	meta, _ := holder["metadata"].(map[string]interface{})
	if meta == nil {
		meta = map[string]interface{}{}
		holder["metadata"] = meta
	}
	labels, _ := meta["labels"].(map[string]interface{})
	nl := map[string]interface{}{}
	keys := []string{}
	for k, v := range labels {
		nl[k] = v
		keys = append(keys, k)
	}
	sort.Strings(keys)
	switch {
	case len(keys) > 0 && r.chance(1, 2):
		delete(nl, pick(r, keys))
	case len(keys) > 0:
		nl[pick(r, keys)] = "older"
	default:
		nl[pick(r, labelKeys)] = pick(r, labelVals)
	}
	meta["labels"] = nl
	b, err := yaml.Marshal(m)
	if err != nil {
		return docs, lay
	}
	j := len(docs)
	docs = append(append([]Doc{}, docs...), Doc{Kind: docs[i].Kind, NS: docs[i].NS, Name: docs[i].Name, Text: string(b)})
	// take the first description out of the file it was in
	var nlay Layout
	for _, f := range lay {
		var d []int
		for _, x := range f.Docs {
			if x != i {
				d = append(d, x)
			}
		}
		if len(d) > 0 {
			f.Docs = d
			nlay = append(nlay, f)
		}
	}
	pairs := [][2]string{{"t/x.yaml", "t.yaml"}, {"t/x.yaml", "t-x.yaml"}, {"t/x.yaml", "t0.yaml"}, {"a.d/k.yaml", "a.yaml"}, {"m-00.yaml", "m-01.yaml"}, {"zz/q.yaml", "zz.yml"}}
	pr := pick(r, pairs)
	if r.chance(1, 2) {
		pr[0], pr[1] = pr[1], pr[0]
	}
	nlay = append(nlay, LFile{Path: pr[0], Docs: []int{i}}, LFile{Path: pr[1], Docs: []int{j}})
	return docs, nlay
}

func c18Build(seed uint64, i int, corpus []CorpusDir, faulty bool) *c18Case {
	r := sub(seed, "C18", "case", i, fmt.Sprint(faulty))
	c := &c18Case{name: fmt.Sprintf("c18:%d", i), seed: r.u64() >> 1}
	var workloads []string
	if r.chance(1, 3) && len(corpus) > 0 {
		cd := &corpus[r.intn(len(corpus))]
		c.name += ":corpus:" + cd.Name
		c.files, c.files2 = cd.Files, cd.Files
		if r.chance(1, 2) {
			cd2 := &corpus[r.intn(len(corpus))]
			c.files2 = cd2.Files
		}
		workloads = corpusFocus(r, cd)
	} else {
		f := drawFeatures(r)
		w := genWorld(r, f)
		c.docs, c.docs2 = w.Docs, editSet(r, w.Docs, &f)
		c.lay, c.lay2 = randomLayout(r, len(c.docs)), randomLayout(r, len(c.docs2))
		workloads = w.Workloads
		if r.chance(1, 10) {
			// a directory the library rejects
			c.docs = append(c.docs, randNetpol(r, &f, "alpha", "dup"), randNetpol(r, &f, "alpha", "dup"))
			c.lay = randomLayout(r, len(c.docs))
		}
		if r.chance(1, 10) {
			c.docs = append(c.docs, Doc{Kind: "Deployment", Name: "bad", Text: fmt.Sprintf(badSchemaDocs[0], "bad")})
			c.lay = randomLayout(r, len(c.docs))
		}
		if r.chance(1, 5) {
			n0 := len(c.docs)
			c.docs, c.lay = twiceDescribed(r, c.docs, c.lay)
			c.twice = len(c.docs) > n0
		}
	}
	c.cmd, c.dir2 = "list", "b"
	if r.chance(1, 3) {
		c.cmd = "diff"
		if r.chance(1, 4) {
			// a directory compared with itself, under several spellings of its path
			c.dir2 = pick(r, []string{"a", "a/", "./a", "a/../a"})
		} else if r.chance(1, 5) {
			c.dir2 = pick(r, []string{"lb/", "lb/.", "b/", "lb", "la/"})
		}
	}
	c.fmt = pick(r, []string{"", "txt", "json", "csv", "md", "dot"})
	if c.cmd == "diff" && c.fmt == "json" {
		c.fmt = "md"
	}
	if r.chance(1, 12) {
		c.fmt = pick(r, []string{"svg", "yaml", "json", "TXT"})
	}
	c.fail = r.chance(1, 8)
	c.flagsFirst = r.chance(1, 5)
	if r.chance(1, 6) {
		c.dirSpell = pick(r, []string{"./a", "a/", "a/.", "b/../a", "la/", "la/.", "la", "./la/"})
	}
	c.verb = pick(r, []string{"", "", "-q", "-v"})
	if c.cmd == "list" {
		c.exp = r.chance(1, 3)
		if r.chance(1, 3) && len(workloads) > 0 {
			w := pick(r, workloads)
			bare := w[strings.Index(w, "/")+1:]
			switch r.intn(10) {
			case 8:
				c.focus = "default/" + bare // the right name under the default namespace (usually the wrong one)
			case 9:
				c.focus = pick(r, nsNames) + "/" + bare // the right name under some namespace
			case 0:
				c.focus = w
			case 1:
				c.focus = bare
			case 2:
				c.focus = "no-such-workload"
			case 3:
				c.focus = "ingress-controller"
			case 4:
				c.focus = strings.ToUpper(bare) // names are case sensitive: must not match
			case 5:
				c.focus = bare + " " // nor with a trailing blank
			case 6:
				c.focus = bare[:len(bare)-1] // nor by prefix
			default:
				c.focus = w + "/" // nor with a trailing separator
			}
		}
	}
	if r.chance(1, 2) || faulty {
		c.outf = "out/res.txt"
		c.stale = r.chance(1, 2)
		if !faulty && r.chance(1, 2) {
			// the name of the target says nothing about its content: whatever its extension, it gets the bytes of stdout
			c.outf = pick(r, []string{"out/res.csv", "out/res.md", "out/res.dot", "out/res.json", "out/res", "out/res.MD", "out/res.yaml", "out/res.txt.bak"})
		}
	}
	if faulty {
		switch k := r.intn(6); {
		case k == 0:
			c.outf = "out/missing/res.txt"
		case k == 1:
			c.outf = "out"
		case k == 2:
			c.outf = "/dev/full"
		case haveStrace && k == 3:
			c.fault = &Fault{Syscall: "write", Path: "out/res.txt", Errno: pick(r, []string{"ENOSPC", "EIO"}), When: 1}
		case haveStrace && k == 4:
			c.fault = &Fault{Syscall: "openat", Path: "out/res.txt", Errno: pick(r, []string{"EMFILE", "EACCES", "EROFS"}), When: 1}
		default:
			c.outf = "out/missing/deeper/res.txt"
		}
	}
	return c
}

func runC18(tier string, seed uint64) int {
	rp := newReport("C18", tier, seed)
	n, nFault := 450, 150
	if tier == "thorough" {
		n, nFault = 90000, 24000
	}
	if v := envInt("VERIF_C18_N"); v > 0 {
		n, nFault = v, v/3
	}
	corpus, err := loadCorpus(filepath.Join(repoRoot, "tests"))
	if err != nil {
		infra("corpus: %v", err)
	}
	total := n + nFault
	type out struct {
		c       *c18Case
		clause  string
		why     string
		infra   string
		libErr  bool
		written bool
		inj     int
		c08     bool
	}
	outs := make([]out, total)
	parallel(total, workers, func(i int) {
		faulty := i >= n
		c := c18Build(seed, i, corpus, faulty)
		o := &outs[i]
		o.c = c
		runs := c.runs(c.seed, c.seed^0x5a5a)
		res := []*Result{execute(&runs[0]), execute(&runs[1])}
		for _, x := range res {
			if x.Infra != "" {
				o.infra = x.Infra
				return
			}
		}
		o.inj = res[0].Injected
		if res[1].Trace != nil && len(res[1].Trace.Events) > 0 {
			o.libErr = !res[1].Trace.Events[0].OK
		}
		_, o.written = res[0].Files[c.outf]
		o.clause, o.why = c18Judge(res, c.outf, faulty, c.badFmt())
		if o.clause == "stdout" || o.clause == "infos" {
			// keep C08 out of C18: CLI and library are different programs, equal seeds do not mean
			// equal map orders. Count it only if the two sides' outputs are disjoint over 8 more seeds each.
			cliOuts, libOuts := map[string]bool{}, map[string]bool{}
			sr := sub(seed, "C18", "reseed", i)
			for k := 0; k < 8; k++ {
				rr := c.runs(sr.u64()>>1, sr.u64()>>1)
				a, b := execute(&rr[0]), execute(&rr[1])
				cliOuts[a.Stdout] = true
				if b.Trace != nil && len(b.Trace.Events) > 0 {
					libOuts[b.Trace.Events[0].Out] = true
					if o.clause == "infos" && len(b.Trace.Events) > 1 {
						cliOuts[b.Trace.Events[1].Out] = true
					}
				}
			}
			if o.clause == "infos" {
				delete(cliOuts, res[0].Stdout)
			}
			for s := range cliOuts {
				if libOuts[s] {
					o.c08 = true
				}
			}
			if len(cliOuts) > 1 || len(libOuts) > 1 {
				o.c08 = true // each side alone varies with the schedule: that is C08's violation
			}
			if o.c08 {
				o.clause, o.why = "", ""
			}
		}
	})
	var bad []int
	libErrs, written, inj, c08s, nontrivial := 0, 0, 0, 0, 0
	twice := 0
	byCmd := map[string]int{}
	for i := range outs {
		o := &outs[i]
		if o.infra != "" {
			infra("C18: case %d: %s", i, o.infra)
		}
		if o.libErr {
			libErrs++
		}
		if o.written {
			written++
		}
		inj += o.inj
		if o.c08 {
			c08s++
		}
		c := o.c
		key := c.cmd + " -o " + c.fmt
		byCmd[key]++
		if c.twice {
			twice++
		}
		if c.exp || c.focus != "" || c.fail || c.verb != "" || c.outf != "" || c.fmt != "" {
			nontrivial++
		}
		if o.clause != "" {
			bad = append(bad, i)
		}
	}
	reported, tried := 0, 0
	for _, i := range bad {
		if reported >= 4 || tried >= 8 {
			fmt.Printf("note: %d further failing cases not minimised\n", len(bad)-reported)
			break
		}
		rep := c18Minimise(outs[i].c, outs[i].clause, i >= n, seed)
		if rep == nil {
			infra("C18: case %d (%s) did not reproduce during minimisation", i, outs[i].why)
		}
		if ok, why := confirm(rep, 3); !ok {
			infra("C18: witness for case %d does not replay: %s", i, why)
		}
		if rp.violation(rep) {
			reported++
		} else if knownFinding(rp.findings, rep.Property, rep.Sig) == nil {
			tried++ // a repeat of a signature already reported in this run (listed findings never count)
		}
	}
	var samples []interface{}
	for i := 0; i < total && len(samples) < 4; i += 1 + total/4 {
		c := outs[i].c
		s := map[string]interface{}{"case": c.name, "argv": strings.Join(c.cliArgs(), " "), "library_steps": len(c.libSteps())}
		if c.fault != nil {
			s["syscall_fault"] = c.fault
		}
		samples = append(samples, s)
	}
	ev := &Evidence{PropertyID: "C18", Tier: tier, Seed: int64(seed), Level: "exploration", WallS: sinceS(rp.start), Violations: rp.violations,
		Coverage: map[string]interface{}{
			"evaluations":         total,
			"distinct_nontrivial": nontrivial,
			"rule": "one evaluation = one (directory, command line) pair run as the separately linked CLI process and as a library execution in the node; fault-free and output-path-fault batches are separate; " +
				"a case is non-trivial when at least one flag beyond the mandatory ones is present (-o, --exposure, --focusworkload, --fail, -q/-v, -f); cases are distinct by seed-derived content",
			"samples":                              samples,
			"fault_free_cases":                     n,
			"output_fault_cases":                   nFault,
			"library_error_cases":                  libErrs,
			"cases_with_f_file_written":            written,
			"cases_with_an_object_described_twice": twice,
			"syscall_faults_injected":              inj,
			"mismatches_attributed_to_C08":         c08s,
			"commands_by_format":                   byCmd,
			"failing_cases":                        len(bad),
			"known_findings_observed":              len(rp.known),
			"runs_per_hour":                        perHour(2*total, rp.start),
			"fault_kinds":                          "-f into a missing directory, -f at a directory, -f /dev/full, write->ENOSPC/EIO and openat->EMFILE/EACCES/EROFS on the -f target (strace seam)",
			"simulated_time":                       "none",
			"real_components":                      "cmd/netpolicy binary built from the working tree (process boundary: argv, cwd, stdout, stderr, exit status, -f file), the library through its public API",
			"stubbed_components":                   "none",
		},
		Assumptions: []string{
			"with an output-path fault the oracle is relaxed narrowly: stdout must equal the library string, and either the exit status is non-zero or the file holds exactly those bytes",
			"a stdout/library mismatch counts for C18 only if the two sides' outputs are disjoint over 8 further schedules each and neither side varies alone; otherwise it is C08's violation",
			"when the library call fails nothing but cobra's usage text may appear on stdout",
		}}
	writeEvidence(ev)
	fmt.Printf("C18 %s seed=%d: %d cases (%d with an output-path fault), %d library-error cases, %d -f files checked, %d syscall faults, %d failing cases, %d violations, %d known findings, %.1fs\n",
		tier, seed, total, nFault, libErrs, written, inj, len(bad), rp.violations, len(rp.known), sinceS(rp.start))
	return rp.exitCode()
}

func c18Minimise(c *c18Case, clause string, faulty bool, seed uint64) *Replay {
	mk := func(cc *c18Case) *Replay {
		return &Replay{Property: "C18", Clause: clause, Seed: seed, Scenario: c.name, Runs: cc.runs(c.seed, c.seed^0x5a5a),
			Detail: map[string]string{"outf": c.outf, "faulty": fmt.Sprint(faulty), "badfmt": fmt.Sprint(c.badFmt()), "argv": strings.Join(c.cliArgs(), " ")}}
	}
	holds := func(cc *c18Case) bool {
		runs := cc.runs(c.seed, c.seed^0x5a5a)
		res := []*Result{execute(&runs[0]), execute(&runs[1])}
		cl, _ := c18Judge(res, c.outf, faulty, c.badFmt())
		return cl == clause
	}
	cur := *c
	if !holds(&cur) {
		return nil
	}
	if c.files == nil {
		keep := ddmin(len(c.docs), func(keep []int) bool {
			cc := *c
			cc.docs, cc.lay = subsetDocs(c.docs, keep), c.lay.restrict(keep)
			return holds(&cc)
		})
		cur.docs, cur.lay = subsetDocs(c.docs, keep), c.lay.restrict(keep)
		if c.cmd == "diff" {
			base := cur
			keep2 := ddmin(len(c.docs2), func(keep []int) bool {
				cc := base
				cc.docs2, cc.lay2 = subsetDocs(c.docs2, keep), c.lay2.restrict(keep)
				return holds(&cc)
			})
			cur.docs2, cur.lay2 = subsetDocs(c.docs2, keep2), c.lay2.restrict(keep2)
		} else {
			cur.docs2, cur.lay2 = nil, nil
		}
	} else {
		keep := ddmin(len(c.files), func(keep []int) bool {
			cc := *c
			cc.files = subsetFiles(c.files, keep)
			return holds(&cc)
		})
		cur.files = subsetFiles(c.files, keep)
	}
	if !holds(&cur) {
		cur = *c
	}
	rep := mk(&cur)
	_, v := runReplay(rep)
	if v.Infra != "" || !v.Violated {
		return nil
	}
	rep.Note = fmt.Sprintf("k8snetpolicy %s: %s", strings.Join(c.cliArgs(), " "), v.Desc)
	rep.Observed = v.Digests
	rep.Sig = "c18:" + clause + ":" + c.cmd
	if faulty {
		rep.Sig += ":outfault"
	}
	return rep
}
