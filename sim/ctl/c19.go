package main

import (
	"fmt"
	"sort"
	"strings"

	routev1 "github.com/openshift/api/route/v1"
	corev1 "k8s.io/api/core/v1"
	netv1 "k8s.io/api/networking/v1"
	metav1 "k8s.io/apimachinery/pkg/apis/meta/v1"
	"k8s.io/apimachinery/pkg/util/intstr"

	"verifsim/job"
)

// C19 — conflicting policy sets are always rejected, wherever the conflict sits.
//
// A valid base (n ANPs with distinct in-range priorities, NetworkPolicies, workloads,
// optionally a BANP) gets exactly one injected conflict. The fault space is enumerated:
// (conflict kind) x (n) x (positions of the two conflicting documents in the delivery
// order) x (order of the other priorities) with a seeded layout and map schedule per cell.

type c19Cell struct {
	kind   string // samePriority | badPriority | dupANPName | dupNPName | twoBANP | banpName | podLabels
	n      int    // number of same-kind documents in the base
	i, j   int    // delivery positions of the two conflicting documents among the n+1 (j == -1: single offender)
	order  string // sorted | reversed | organ | random
	detail string // e.g. the bad priority value
}

func (c c19Cell) String() string {
	return fmt.Sprintf("%s n=%d i=%d j=%d order=%s %s", c.kind, c.n, c.i, c.j, c.order, c.detail)
}

type c19Case struct {
	cell    c19Cell
	docs    []Doc // delivery order, conflict included
	ctl     []Doc // the same without the injected document(s): must analyse fine
	tokens  []string
	lay     Layout
	seed    uint64
	admin   bool
	noWl    bool  // a directory of policies only: no workload, no Ingress, no Route
	keepIdx []int // indices in docs that form the conflict (never removed by minimisation)
}

func priorityOrder(r *rng, n int, order string) []int32 {
	// n distinct priorities in 0..1000, bounds included when n >= 2
	set := map[int32]bool{}
	if n >= 2 {
		set[0], set[1000] = true, true
	}
	for len(set) < n {
		set[int32(r.intn(1001))] = true
	}
	ps := make([]int32, 0, n)
	for p := range set {
		ps = append(ps, p)
	}
	sort.Slice(ps, func(a, b int) bool { return ps[a] < ps[b] })
	switch order {
	case "reversed":
		for a, b := 0, len(ps)-1; a < b; a, b = a+1, b-1 {
			ps[a], ps[b] = ps[b], ps[a]
		}
	case "organ":
		var out []int32
		for k := 0; k < len(ps); k += 2 {
			out = append(out, ps[k])
		}
		for k := len(ps) - 1 - (len(ps) % 2); k >= 1; k -= 2 {
			out = append(out, ps[k])
		}
		ps = out
	case "random":
		p := r.perm(len(ps))
		out := make([]int32, len(ps))
		for a, b := range p {
			out[a] = ps[b]
		}
		ps = out
	}
	return ps
}

// insertAt returns xs with v inserted so that it ends up at index pos.
func insertAt(xs []Doc, pos int, v Doc) []Doc {
	out := make([]Doc, 0, len(xs)+1)
	out = append(out, xs[:pos]...)
	out = append(out, v)
	out = append(out, xs[pos:]...)
	return out
}

func c19Build(seed uint64, cell c19Cell) *c19Case {
	r := sub(seed, "C19", cell.String())
	f := Features{NNamespaces: 2, Exprs: r.chance(1, 2), NamedPorts: r.chance(1, 2), IPBlocks: r.chance(1, 2)}
	c := &c19Case{cell: cell, seed: r.u64() >> 1}
	// the others: a few workloads, namespaces, policies
	var others []Doc
	for _, ns := range nsNames[:2] {
		if r.chance(1, 2) {
			others = append(others, nsDoc(ns, randLabels(r, 0)))
		}
	}
	nw := r.between(2, 4)
	if cell.kind != "podLabels" && r.chance(1, 8) {
		// policies kept in a directory of their own (a policy repository): nothing to connect, the conflict is still one
		nw, c.noWl = 0, true
		others = append(others, nsDoc("gamma", randLabels(r, 0))) // never an empty directory: the control must have something to read
	}
	for k := 0; k < nw; k++ {
		others = append(others, workloadDoc(r, wl{pick(r, nsNames[:2]), fmt.Sprintf("w%d", k), pick(r, []string{"Deployment", "StatefulSet", "DaemonSet"}), randLabels(r, 1), randContainerPorts(r)}))
	}
	if !c.noWl && r.chance(1, 3) {
		// a front door: a service (selecting by label, so every pod is looked at), and in half of these an Ingress or a
		// Route leading to it. Which component meets a conflict first depends on what else is in the directory.
		// (in the namespace of the conflicting pods of the podLabels cells, or next door: the pods of one namespace
		// being fine says nothing about the pods of another)
		fns := pick(r, []string{"alpha", "alpha", "beta"})
		sel := map[string]string{pick(r, labelKeys): pick(r, labelVals)}
		if r.chance(1, 2) {
			sel = map[string]string{"app": "a"} // the label the conflicting pods of the podLabels cells carry
		}
		others = append(others, toDoc("Service", fns, "front", &corev1.Service{TypeMeta: metav1.TypeMeta{APIVersion: "v1", Kind: "Service"},
			ObjectMeta: metav1.ObjectMeta{Name: "front", Namespace: fns},
			Spec:       corev1.ServiceSpec{Selector: sel, Ports: []corev1.ServicePort{{Name: "p0", Port: 80, Protocol: corev1.ProtocolTCP, TargetPort: intstr.FromInt32(8080)}}}}))
		switch r.intn(4) {
		case 0:
			pt := netv1.PathTypePrefix
			others = append(others, toDoc("Ingress", fns, "door", &netv1.Ingress{TypeMeta: metav1.TypeMeta{APIVersion: "networking.k8s.io/v1", Kind: "Ingress"},
				ObjectMeta: metav1.ObjectMeta{Name: "door", Namespace: fns},
				Spec: netv1.IngressSpec{Rules: []netv1.IngressRule{{Host: "h.example", IngressRuleValue: netv1.IngressRuleValue{HTTP: &netv1.HTTPIngressRuleValue{
					Paths: []netv1.HTTPIngressPath{{Path: "/", PathType: &pt, Backend: netv1.IngressBackend{Service: &netv1.IngressServiceBackend{Name: "front", Port: netv1.ServiceBackendPort{Number: 80}}}}}}}}}}}))
		case 1:
			others = append(others, toDoc("Route", fns, "door", &routev1.Route{TypeMeta: metav1.TypeMeta{APIVersion: "route.openshift.io/v1", Kind: "Route"},
				ObjectMeta: metav1.ObjectMeta{Name: "door", Namespace: fns},
				Spec:       routev1.RouteSpec{Host: "h.example", To: routev1.RouteTargetReference{Kind: "Service", Name: "front"}}}))
		}
	}
	var group []Doc // the documents among which positions are enumerated
	var injected Doc
	nANP, nNP := r.between(0, 3), r.between(0, 3)
	withBANP := r.chance(1, 3)
	switch cell.kind {
	case "samePriority", "badPriority", "dupANPName":
		nANP = cell.n
	case "dupNPName":
		nNP = cell.n
		if r.chance(1, 2) {
			nANP, withBANP = 0, false
		}
	case "twoBANP", "banpName":
		withBANP = false
	case "podLabels":
		if r.chance(1, 2) {
			nANP, withBANP = 0, false
		}
	}
	prios := priorityOrder(r, nANP, cell.order)
	var anps []Doc
	for k := 0; k < nANP; k++ {
		anps = append(anps, randANP(r, &f, fmt.Sprintf("anp-%03d", k), prios[k]))
	}
	var nps []Doc
	for k := 0; k < nNP; k++ {
		nps = append(nps, randNetpol(r, &f, pick(r, nsNames[:2]), fmt.Sprintf("np-%03d", k)))
	}
	if withBANP {
		others = append(others, randBANP(r, &f, "default"))
	}
	c.admin = nANP > 0 || withBANP || cell.kind == "samePriority" || cell.kind == "badPriority" || cell.kind == "dupANPName"

	switch cell.kind {
	case "samePriority":
		// document at delivery position i keeps its priority; the injected one (position j) copies it
		group = anps
		partner := cell.i
		injected = randANP(r, &f, "cfl-same-prio", prios[partner])
		c.tokens = []string{"cfl-same-prio", fmt.Sprintf("anp-%03d", partner)}
		others = append(others, nps...)
	case "badPriority":
		group = anps
		var bad int64
		fmt.Sscan(cell.detail, &bad)
		if bad == int64(int32(bad)) {
			injected = randANP(r, &f, "cfl-bad-prio", int32(bad))
		} else {
			// a number that the typed field cannot hold: written into the manifest text
			injected = randANP(r, &f, "cfl-bad-prio", 999)
			if strings.Count(injected.Text, "priority: 999\n") != 1 {
				panic("c19: priority line not found")
			}
			injected.Text = strings.Replace(injected.Text, "priority: 999\n", "priority: "+cell.detail+"\n", 1)
		}
		c.tokens = []string{"cfl-bad-prio", fmt.Sprint(bad)}
		others = append(others, nps...)
	case "dupANPName":
		group = anps
		partner := cell.i
		// a priority not used by anyone
		used := map[int32]bool{}
		for _, p := range prios {
			used[p] = true
		}
		p := int32(r.intn(1001))
		for used[p] {
			p = int32(r.intn(1001))
		}
		injected = randANP(r, &f, fmt.Sprintf("anp-%03d", partner), p)
		c.tokens = []string{fmt.Sprintf("anp-%03d", partner)}
		others = append(others, nps...)
	case "dupNPName":
		group = nps
		partner := cell.i
		injected = randNetpol(r, &f, nps[partner].NS, nps[partner].Name)
		c.tokens = []string{nps[partner].Name}
		if cell.detail == "defaultns" {
			// the same place spelled twice: one policy says namespace: default, the other says nothing
			nps[partner] = randNetpol(r, &f, "default", nps[partner].Name)
			injected = randNetpol(r, &f, "", nps[partner].Name)
			if r.chance(1, 2) {
				nps[partner], injected = injected, nps[partner]
			}
			group = nps
		}
		others = append(others, anps...)
	case "twoBANP":
		first := randBANP(r, &f, "default")
		group = []Doc{first}
		name := "default"
		if cell.detail == "othername" {
			name = "second"
		}
		injected = randBANP(r, &f, name)
		c.tokens = []string{"aseline"}
		c.admin = true
		others = append(others, anps...)
		others = append(others, nps...)
	case "banpName":
		group = nil
		injected = randBANP(r, &f, "cfl-not-default")
		c.tokens = []string{"aseline", "cfl-not-default"}
		c.admin = true
		others = append(others, anps...)
		others = append(others, nps...)
	case "podLabels":
		// n pods under one controller with equal labels; the injected one differs
		labels := map[string]string{"app": "a", "tier": "b"}
		okind := "ReplicaSet"
		detail := cell.detail
		if strings.HasSuffix(detail, "+refs") {
			okind = "ReplicaSet+refs" // every pod lists two non-controller references before the controller's
			detail = strings.TrimSuffix(detail, "+refs")
		}
		owner := "cfl-owner"
		twin := strings.HasSuffix(detail, "+twin")
		detail = strings.TrimSuffix(detail, "+twin")
		if strings.HasSuffix(detail, "+hash") {
			// the way pods of a Deployment look in a dump of a live cluster: the ReplicaSet is named after the
			// template hash and every pod carries it as a label
			detail = strings.TrimSuffix(detail, "+hash")
			owner = "cfl-owner-6d4cf56db6"
			labels["pod-template-hash"] = "6d4cf56db6"
		}
		for k := 0; k < cell.n; k++ {
			group = append(group, podDoc("alpha", fmt.Sprintf("cfl-pod-%d", k), labels, nil, owner, okind, r.chance(1, 2)))
		}
		bad := map[string]string{}
		for k, v := range labels {
			bad[k] = v
		}
		switch detail {
		case "value":
			bad["tier"] = "c"
		case "missing":
			delete(bad, "tier")
		default:
			bad["extra"] = "x"
		}
		injected = podDoc("alpha", "cfl-pod-x", bad, nil, owner, okind, r.chance(1, 2))
		if twin {
			// a controller of another kind carries the same name in the same namespace; its own pods agree with each other
			for k, n := 0, r.between(1, 3); k < n; k++ {
				others = append(others, podDoc("alpha", fmt.Sprintf("cfl-twin-%d", k), map[string]string{"app": "z", "role": "db"}, nil, owner, "StatefulSet", r.chance(1, 2)))
			}
		}
		c.tokens = []string{"cfl-owner"}
		others = append(others, anps...)
		others = append(others, nps...)
	default:
		panic("c19: kind " + cell.kind)
	}
	// delivery order of the group: the injected document goes to position j of the n+1 documents
	// (single offender: position i); the partner, where there is one, is group[i]
	var seq []Doc
	if cell.j < 0 {
		seq = insertAt(group, cell.i, injected)
	} else {
		seq = insertAt(append([]Doc{}, group...), cell.j, injected)
	}
	// interleave the others at random places without disturbing the relative order of seq
	all := make([]Doc, 0, len(seq)+len(others))
	marks := make([]bool, 0, cap(all)) // true = belongs to seq
	si, oi := 0, 0
	op := r.perm(len(others))
	for si < len(seq) || oi < len(others) {
		takeSeq := oi >= len(others) || (si < len(seq) && r.chance(len(seq)-si, len(seq)-si+len(others)-oi))
		if takeSeq {
			all = append(all, seq[si])
			marks = append(marks, true)
			si++
		} else {
			all = append(all, others[op[oi]])
			marks = append(marks, false)
			oi++
		}
	}
	c.docs = all
	var ctlIdx []int
	for k, d := range all {
		if d.Text == injected.Text && d.Name == injected.Name {
			c.keepIdx = append(c.keepIdx, k)
		} else if !strings.HasPrefix(d.Name, "cfl-twin-") {
			// (the pods of a same-named controller of another kind stay out of the control: this tree matches owners by
			// name alone and takes them for a conflict of their own, which the cell's verdict does not depend on)
			ctlIdx = append(ctlIdx, k)
		}
	}
	// conflict partners must survive minimisation too
	for k, d := range all {
		if !marks[k] {
			continue
		}
		switch cell.kind {
		case "samePriority", "dupANPName":
			if d.Name == fmt.Sprintf("anp-%03d", cell.i) && d.Text != injected.Text {
				c.keepIdx = append(c.keepIdx, k)
			}
		case "dupNPName":
			if d.Name == injected.Name && d.Text != injected.Text {
				c.keepIdx = append(c.keepIdx, k)
			}
		case "twoBANP":
			if d.Kind == "BaselineAdminNetworkPolicy" && d.Text != injected.Text {
				c.keepIdx = append(c.keepIdx, k)
			}
		case "podLabels":
			if d.Kind == "Pod" && strings.HasPrefix(d.Name, "cfl-pod-") && d.Text != injected.Text {
				c.keepIdx = append(c.keepIdx, k)
			}
		}
	}
	sort.Ints(c.keepIdx)
	if r.chance(1, 4) {
		// the directory is a dump of a live cluster: every document carries a uid, a resourceVersion, a generation
		// and a creation time of its own (two documents of one name are then an older and a newer revision)
		c.docs = exported(r, c.docs)
	}
	for _, k := range ctlIdx {
		c.ctl = append(c.ctl, c.docs[k])
	}
	// layout: delivery order must be preserved, the partition into files is free
	c.lay = orderedLayout(r, len(all))
	return c
}

// orderedLayout cuts [0,n) into consecutive files whose names sort in delivery order.
func orderedLayout(r *rng, n int) Layout {
	var l Layout
	mode := r.intn(3)
	cur := []int{}
	flush := func() {
		if len(cur) > 0 {
			lf := LFile{Path: fmt.Sprintf("f%04d.yaml", len(l)), Docs: cur, List: r.chance(1, 3)}
			if !lf.List && r.chance(1, 5) {
				lf.Path, lf.JSON = fmt.Sprintf("f%04d.json", len(l)), true
			} else if !lf.List {
				lf.Dress = []int{0, 0, 0, 1, 2, 3}[r.intn(6)]
			}
			l = append(l, lf)
			cur = []int{}
		}
	}
	for i := 0; i < n; i++ {
		cur = append(cur, i)
		switch mode {
		case 0:
			flush()
		case 1:
		default:
			if r.chance(1, 3) {
				flush()
			}
		}
	}
	flush()
	return l
}

func c19Steps(c *c19Case) []job.Step {
	st := []job.Step{
		{Kind: job.List, Dir: "ctl", Fmt: "txt"},
		{Kind: job.List, Dir: "a", Fmt: "txt"},
		{Kind: job.List, Dir: "a", Fmt: "json", API: "infos"},
		{Kind: job.Diff, Dir1: "a", Dir2: "ctl", Fmt: "txt"},
		{Kind: job.Diff, Dir1: "ctl", Dir2: "a", Fmt: "md"},
		{Kind: job.List, Dir: "a", Fmt: "txt", Stop: true, API: "infos"},
		{Kind: job.List, Dir: "a", Fmt: "md", Stop: true},
		{Kind: job.Diff, Dir1: "a", Dir2: "ctl", Fmt: "csv", Stop: true},
	}
	if !c.admin {
		st = append(st, job.Step{Kind: job.List, Dir: "a", Fmt: "txt", Exposure: true})
	}
	if c.noWl {
		// without workloads the parser reports a severe "nothing to analyse": under stop-on-error the analysis ends there,
		// before any policy is looked at (C13 (c) allows exactly that), so only the commands without it are judged
		var keep []job.Step
		for _, x := range st {
			if !x.Stop {
				keep = append(keep, x)
			}
		}
		st = keep
	}
	// narrowing the report must not narrow the validation: a workload that exists, one that does not, the synthetic one
	st = append(st,
		job.Step{Kind: job.List, Dir: "a", Fmt: "txt", Focus: "w0"},
		job.Step{Kind: job.List, Dir: "a", Fmt: "csv", Focus: "no-such-workload"},
		job.Step{Kind: job.List, Dir: "a", Fmt: "txt", Focus: "ingress-controller", API: "infos"})
	return st
}

func (c *c19Case) run(docs, ctl []Doc, lay Layout, steps []job.Step) Run {
	return c.runSeed(docs, ctl, lay, steps, c.seed)
}

func (c *c19Case) runSeed(docs, ctl []Doc, lay Layout, steps []job.Step, seed uint64) Run {
	fs := append(lay.fs("a", docs), canonicalLayout(len(ctl)).fs("ctl", ctl)...)
	return Run{FS: fs, Job: &job.Job{ID: "c19:" + c.cell.String(), MapSeed: seed, Steps: steps, KeepOut: false}}
}

// c19Judge evaluates one event on the conflicting directory. "" = fine.
func c19Judge(e *job.Event, tokens []string) string {
	if e.Panic != nil {
		return "" // a crash is C12's finding; here it is at least not a silent acceptance
	}
	if e.OK || e.HasOut {
		return "the conflicting input was accepted and a report was produced"
	}
	if e.Err == "" {
		return "no error was returned for the conflicting input"
	}
	if e.NConns > 0 || len(e.Conns) > 0 || len(e.DiffRows) > 0 {
		return "an error was returned together with a result"
	}
	fatal := false
	text := e.Err
	for _, x := range e.Errors {
		if x.Fatal {
			fatal = true
		}
		text += "\n" + x.Text
	}
	if !fatal {
		return "the error is not recorded as fatal in Errors()"
	}
	for _, t := range tokens {
		if strings.Contains(text, t) {
			return ""
		}
	}
	return fmt.Sprintf("the error does not name the conflict (none of %v in %q)", tokens, e.Err)
}

type c19Checker struct{}

func (c19Checker) recheck(r *Replay, res []*Result) Verdict {
	if len(res) != 1 || res[0].Trace == nil {
		return Verdict{Infra: "C19 replay needs one completed run"}
	}
	tokens := strings.Split(r.Detail["tokens"], "\x1f")
	t := res[0].Trace
	steps := r.Runs[0].Job.Steps
	var dg []string
	for i := range t.Events {
		e := &t.Events[i]
		st := &steps[e.Step]
		if st.Dir == "ctl" {
			if !e.OK {
				return Verdict{Infra: "the conflict-free control fails: " + e.Err}
			}
			continue
		}
		if why := c19Judge(e, tokens); why != "" {
			dg = append(dg, fmt.Sprintf("%d:%s", i, why))
			return Verdict{Violated: true, Desc: stepDesc(st) + ": " + why, Digests: dg}
		}
	}
	return Verdict{Desc: "every command rejects the conflict and names it", Digests: []string{"clean"}}
}

func init() {
	checkers["C19"] = c19Checker{}
	runners["C19"] = runC19
}

var c19Orders = []string{"sorted", "reversed", "organ", "random"}

// c19Cells enumerates the fault space of a tier.
func c19Cells(tier string, seed uint64) (cells []c19Cell, exhaustiveUpTo int) {
	full := 8
	if tier == "thorough" {
		full = 16
	}
	add := func(c c19Cell) { cells = append(cells, c) }
	// pairs (partner at i, injected at j) among n+1 delivery positions, both orders
	pairCells := func(kind string, maxN int) {
		for n := 1; n <= maxN; n++ {
			for _, o := range c19Orders {
				if n == 1 && o != "sorted" {
					continue
				}
				for i := 0; i < n; i++ { // partner index in the base group
					for j := 0; j <= n; j++ { // insertion position of the injected document
						add(c19Cell{kind: kind, n: n, i: i, j: j, order: o})
					}
				}
			}
		}
	}
	pairCells("samePriority", full)
	pairCells("dupANPName", full/2)
	pairCells("dupNPName", 6)
	for n := 1; n <= 4; n++ {
		for i := 0; i < n; i++ {
			for j := 0; j <= n; j++ {
				add(c19Cell{kind: "dupNPName", n: n, i: i, j: j, order: "sorted", detail: "defaultns"})
			}
		}
	}
	for n := 0; n <= full; n++ {
		for _, o := range c19Orders {
			if n <= 1 && o != "sorted" {
				continue
			}
			// the last four do not fit the field's 32 bits: 2^32+50, -2^32+50, 2^32, 2^63-1; the three before them sit within
			// 1000 of the ends of the 32-bit range (a difference with a valid priority wraps around there)
			for _, bad := range []string{"-1", "1001", "5000", "-2147483648", "2147483647", "-2147483148", "-2147483398", "2147483147", "4294967346", "-4294967246", "4294967296", "9223372036854775807"} {
				for j := 0; j <= n; j++ {
					add(c19Cell{kind: "badPriority", n: n, i: j, j: -1, order: o, detail: bad})
				}
			}
		}
	}
	for _, d := range []string{"samename", "othername"} {
		for j := 0; j <= 1; j++ {
			for k := 0; k < 6; k++ {
				add(c19Cell{kind: "twoBANP", n: 1, i: 0, j: j, order: fmt.Sprint("v", k), detail: d})
			}
		}
	}
	for k := 0; k < 12; k++ {
		add(c19Cell{kind: "banpName", n: 0, i: 0, j: -1, order: fmt.Sprint("v", k)})
	}
	for n := 1; n <= 5; n++ {
		for _, d := range []string{"value", "missing", "extra", "value+refs", "extra+refs", "value+hash", "extra+hash", "missing+hash+refs", "value+twin", "missing+twin"} {
			for j := 0; j <= n; j++ {
				add(c19Cell{kind: "podLabels", n: n, i: j, j: -1, order: "sorted", detail: d})
			}
		}
	}
	// beyond the exhaustive bound: sampled positions for larger n (pdqsort regimes)
	r := sub(seed, "C19", "large")
	nLarge := 60
	if tier == "thorough" {
		nLarge = 6000
	}
	for k := 0; k < nLarge; k++ {
		n := r.between(full+1, 64)
		i := r.intn(n)
		add(c19Cell{kind: "samePriority", n: n, i: i, j: r.intn(n + 1), order: pick(r, c19Orders), detail: fmt.Sprint("s", k)})
		add(c19Cell{kind: "badPriority", n: n, i: r.intn(n + 1), j: -1, order: pick(r, c19Orders), detail: pick(r, []string{"-1", "1001", "4294967346", "-2147483148", "-2147483008", "2147483147"})})
	}
	return cells, full
}

func runC19(tier string, seed uint64) int {
	rp := newReport("C19", tier, seed)
	cells, full := c19Cells(tier, seed)
	type out struct {
		c     *c19Case
		why   string
		step  job.Step
		infra string
		fired int
	}
	outs := make([]out, len(cells))
	parallel(len(cells), workers, func(k int) {
		c := c19Build(seed, cells[k])
		o := &outs[k]
		o.c = c
		steps := c19Steps(c)
		run := c.run(c.docs, c.ctl, c.lay, steps)
		res := execute(&run)
		if res.Infra != "" || res.Trace == nil || len(res.Trace.Events) != len(steps) {
			o.infra = fmt.Sprintf("%s exit=%d %s", res.Infra, res.Exit, tail(res.Stderr, 300))
			return
		}
		for i := range res.Trace.Events {
			e := &res.Trace.Events[i]
			if steps[i].Dir == "ctl" {
				if !e.OK {
					o.infra = "control of cell " + c.cell.String() + " fails: " + e.Err
					return
				}
				continue
			}
			if !e.OK && e.Err != "" {
				o.fired++
			}
			if why := c19Judge(e, c.tokens); why != "" && o.why == "" {
				o.why, o.step = why, steps[i]
			}
		}
	})
	cellsSeen := map[string]bool{}
	byKind := map[string]int{}
	probes := map[string]int{}
	rejected := 0
	var bad []int
	for k := range outs {
		o := &outs[k]
		if o.infra != "" {
			infra("C19: %s", o.infra)
		}
		cl := o.c.cell
		cellsSeen[fmt.Sprintf("%s/%d/%d/%d", cl.kind, cl.n, cl.i, cl.j)] = true
		byKind[cl.kind]++
		if len(o.c.docs) > 0 && strings.Contains(o.c.docs[0].Text, "creationTimestamp: \"2024-05-01") {
			probes["cells dumped from a cluster (uid, resourceVersion, generation on every document)"]++
		}
		for _, lf := range o.c.lay {
			if lf.Dress != 0 {
				probes["cells with a dressed file (comment header / doubled separators / CRLF)"]++
				break
			}
		}
		rejected += o.fired
		if o.why != "" {
			bad = append(bad, k)
		}
	}
	reported, tried := 0, 0
	for _, k := range bad {
		if reported >= 4 || tried >= 8 {
			fmt.Printf("note: %d further failing cells not minimised\n", len(bad)-reported)
			break
		}
		rep := c19Minimise(outs[k].c, outs[k].step, outs[k].why, seed)
		if rep == nil {
			infra("C19: cell %s did not reproduce during minimisation", outs[k].c.cell)
		}
		if ok, why := confirm(rep, 3); !ok {
			infra("C19: witness for %s does not replay: %s", outs[k].c.cell, why)
		}
		if rp.violation(rep) {
			reported++
		} else if knownFinding(rp.findings, rep.Property, rep.Sig) == nil {
			tried++ // a repeat of a signature already reported in this run (listed findings never count)
		}
	}
	canaryHits := rp.canaries()
	var samples []interface{}
	for k := 0; k < len(outs) && len(samples) < 3; k += 1 + len(outs)/3 {
		c := outs[k].c
		var order []string
		for _, d := range c.docs {
			order = append(order, d.Kind+"/"+d.Name)
		}
		samples = append(samples, map[string]interface{}{"cell": c.cell.String(), "delivery_order": order, "layout_files": len(c.lay), "expected_tokens": c.tokens})
	}
	ev := &Evidence{PropertyID: "C19", Tier: tier, Seed: int64(seed), Level: "fault_enumeration", WallS: sinceS(rp.start), Violations: rp.violations,
		Coverage: map[string]interface{}{
			"evaluations":         len(cells),
			"distinct_nontrivial": len(cellsSeen),
			"rule": fmt.Sprintf("one evaluation = one cell (conflict kind, n, delivery positions of the conflicting documents, order of the other priorities) executed in one OS process through list (directory API, ResourceInfos API, with and without stop-on-error), diff in both directions and, without admin policies, list --exposure, next to its conflict-free control; "+
				"cells are enumerated completely for same-priority/out-of-range priorities with n <= %d, duplicate ANP names with n <= %d, duplicate NetworkPolicy names with n <= 6, pods of one owner with n <= 5, and sampled for n up to 64; distinct = distinct (kind, n, i, j)", full, full/2),
			"samples":                     samples,
			"exhaustive":                  false,
			"exhaustive_part":             fmt.Sprintf("all (kind, n, i, j, base order) cells listed in rule up to the stated n; larger n sampled"),
			"cells_by_kind":               byKind,
			"reach_probes":                probes,
			"commands_rejecting":          rejected,
			"failing_cells":               len(bad),
			"known_findings_observed":     len(rp.known),
			"canary_witnesses_reproduced": canaryHits,
			"runs_per_hour":               perHour(len(cells), rp.start),
			"fault_kinds":                 byKind,
			"simulated_time":              "none",
			"real_components":             "all of /repo on real files; the conflict-free control runs in the same process",
			"stubbed_components":          "none",
		},
		Assumptions: []string{
			"exactly one conflict is injected per cell, so the error can be required to name it",
			"naming the conflict = the error text or a fatal Errors() entry contains the name of a conflicting resource (or its owner), the offending priority value, or for the two BANP kinds the word baseline; message constants of the repository are not mirrored",
			"a panic on the conflicting input is left to C12; it is not counted as acceptance",
			"generated pods never carry the name the analyzer derives for a workload's pod (<workload>-1): that collision is the listed finding, replayed from /verif/known on every run",
		}}
	writeEvidence(ev)
	fmt.Printf("C19 %s seed=%d: %d cells (%d distinct positions), %d commands rejected a conflict, %d failing cells, %d violations, %d known findings, %.1fs\n",
		tier, seed, len(cells), len(cellsSeen), rejected, len(bad), rp.violations, len(rp.known), sinceS(rp.start))
	return rp.exitCode()
}

func c19Minimise(c *c19Case, step job.Step, why string, seed uint64) *Replay {
	steps := []job.Step{{Kind: job.List, Dir: "ctl", Fmt: "txt"}, step}
	keepSet := map[int]bool{}
	for _, k := range c.keepIdx {
		keepSet[k] = true
	}
	var free []int
	for k := range c.docs {
		if !keepSet[k] {
			free = append(free, k)
		}
	}
	seeds := []uint64{c.seed}
	sr := sub(seed, "C19", "minseeds", c.cell.String())
	for k := 0; k < 5; k++ {
		seeds = append(seeds, sr.u64()>>1)
	}
	build := func(keepFree []int, ms uint64) Run {
		sel := map[int]bool{}
		for _, k := range c.keepIdx {
			sel[k] = true
		}
		for _, f := range keepFree {
			sel[free[f]] = true
		}
		var idx []int
		for k := range c.docs {
			if sel[k] {
				idx = append(idx, k)
			}
		}
		docs := subsetDocs(c.docs, idx)
		var ctl []Doc
		for _, k := range idx {
			if !keepSet[k] || !isInjected(c, k) {
				ctl = append(ctl, c.docs[k])
			}
		}
		return c.runSeed(docs, ctl, c.lay.restrict(idx), steps, ms)
	}
	var good *Run
	test := func(keepFree []int) bool {
		ok := make([]bool, len(seeds))
		runs := make([]Run, len(seeds))
		parallel(len(seeds), len(seeds), func(i int) {
			runs[i] = build(keepFree, seeds[i])
			res := execute(&runs[i])
			if res.Trace == nil || len(res.Trace.Events) != 2 || !res.Trace.Events[0].OK {
				return
			}
			ok[i] = c19Judge(&res.Trace.Events[1], c.tokens) != ""
		})
		for i := range ok {
			if ok[i] {
				g := runs[i]
				good = &g
				return true
			}
		}
		return false
	}
	all := make([]int, len(free))
	for i := range all {
		all[i] = i
	}
	var run Run
	keep := all
	if test(all) {
		keep = ddmin(len(free), test)
		if !test(keep) || good == nil {
			return nil
		}
		run = *good
	} else {
		// the reduced command list does not show it under any tried schedule: keep the original
		// execution as the witness (it replays exactly: same files, same job, same seed)
		run = c.run(c.docs, c.ctl, c.lay, c19Steps(c))
	}
	rep := &Replay{Property: "C19", Clause: "a conflicting input is rejected with an error naming the conflict", Seed: seed, Scenario: c.cell.String(),
		Runs: []Run{run}, Detail: map[string]string{"tokens": strings.Join(c.tokens, "\x1f"), "kind": c.cell.kind}}
	_, v := runReplay(rep)
	if v.Infra != "" || !v.Violated {
		return nil
	}
	rep.Note = fmt.Sprintf("%s | cell %s | %d documents kept", v.Desc, c.cell, len(keep)+len(c.keepIdx))
	rep.Observed = v.Digests
	w := why
	if i := strings.Index(w, "("); i > 0 {
		w = w[:i]
	}
	rep.Sig = "c19:" + c.cell.kind + ":" + shortHash(stepKindSig(&step)+w)
	return rep
}

// isInjected: the first keepIdx entry that was recorded for the injected document.
func isInjected(c *c19Case, k int) bool {
	for _, d := range c.ctl {
		if d.Text == c.docs[k].Text && d.Name == c.docs[k].Name && d.Kind == c.docs[k].Kind {
			return false
		}
	}
	return true
}
