package main

import (
	"encoding/json"
	"fmt"
	"os"
	"path/filepath"
	"sort"
	"strings"
	"time"

	"verifsim/job"
)

// Replay is a self-contained witness: the processes to run and the oracle clause that
// must be observed again.
type Replay struct {
	Property string            `json:"property"`
	Clause   string            `json:"clause"`
	Sig      string            `json:"sig"`
	Seed     uint64            `json:"verif_seed"`
	Scenario string            `json:"scenario"`
	Note     string            `json:"note,omitempty"`
	Detail   map[string]string `json:"detail,omitempty"`
	Runs     []Run             `json:"runs"`
	Observed []string          `json:"observed,omitempty"` // digests seen when the witness was recorded
	// Repeat > 1: the witness shows behaviour that depends on something no seam controls (heap addresses,
	// i.e. the iteration order of pointer-keyed maps); replaying means running it up to Repeat times and
	// observing the clause at least once.
	Repeat int `json:"repeat,omitempty"`
}

// Verdict of re-evaluating a clause over the results of a replay's runs.
type Verdict struct {
	Violated bool
	Desc     string
	Digests  []string
	Infra    string
}

type checker interface {
	// recheck evaluates r.Clause over the results of r.Runs (same order).
	recheck(r *Replay, res []*Result) Verdict
}

var checkers = map[string]checker{}

func runReplay(r *Replay) ([]*Result, Verdict) {
	n := r.Repeat
	if n < 1 {
		n = 1
	}
	var res []*Result
	var v Verdict
	for k := 0; k < n; k++ {
		res, v = runReplayOnce(r)
		if v.Infra != "" || v.Violated {
			break
		}
	}
	return res, v
}

func runReplayOnce(r *Replay) ([]*Result, Verdict) {
	res := make([]*Result, len(r.Runs))
	parallel(len(r.Runs), workers, func(i int) { res[i] = execute(&r.Runs[i]) })
	for i, x := range res {
		if x.Infra != "" {
			return res, Verdict{Infra: fmt.Sprintf("run %d: %s", i, x.Infra)}
		}
	}
	c, ok := checkers[r.Property]
	if !ok {
		return res, Verdict{Infra: "no checker for " + r.Property}
	}
	return res, c.recheck(r, res)
}

var (
	workers   = 16
	verifRoot = "/verif"
	repoRoot  = "/repo"
)

// ---- evidence -------------------------------------------------------------------------

type Evidence struct {
	PropertyID  string                 `json:"property_id"`
	Tier        string                 `json:"tier"`
	Seed        int64                  `json:"seed"`
	Level       string                 `json:"level"`
	Coverage    map[string]interface{} `json:"coverage"`
	Assumptions []string               `json:"assumptions"`
	WallS       float64                `json:"wall_s"`
	Violations  int                    `json:"violations"`
}

func writeEvidence(ev *Evidence) {
	dir := filepath.Join(verifRoot, "evidence")
	os.MkdirAll(dir, 0o755)
	b, err := json.MarshalIndent(ev, "", " ")
	if err != nil {
		infra("evidence: %v", err)
	}
	if err := os.WriteFile(filepath.Join(dir, ev.PropertyID+".json"), append(b, '\n'), 0o644); err != nil {
		infra("evidence: %v", err)
	}
}

func saveReplay(r *Replay, tag string) string {
	dir := filepath.Join(verifRoot, "replays")
	os.MkdirAll(dir, 0o755)
	name := fmt.Sprintf("%s-%s-%s.json", r.Property, tag, shortHash(r.Sig+r.Scenario))
	p := filepath.Join(dir, name)
	b, _ := json.MarshalIndent(r, "", " ")
	if err := os.WriteFile(p, append(b, '\n'), 0o644); err != nil {
		infra("replay file: %v", err)
	}
	return p
}

func shortHash(s string) string {
	return fmt.Sprintf("%012x", hashStr(0x51ed, s)&0xffffffffffff)
}

// ---- known findings -------------------------------------------------------------------

// known_findings.txt lines:
//
//	open: property=<id> sig=<signature> <what fails>
//	fixed: property=<id> <commit> <what failed>
//
// Only "open" lines suppress anything, and only the exact signature they carry.
type finding struct {
	prop, sig, text string
}

func loadFindings() []finding {
	b, err := os.ReadFile(filepath.Join(verifRoot, "known_findings.txt"))
	if err != nil {
		return nil
	}
	var res []finding
	for _, l := range strings.Split(string(b), "\n") {
		l = strings.TrimSpace(l)
		if !strings.HasPrefix(l, "open:") {
			continue
		}
		f := finding{}
		rest := strings.TrimSpace(strings.TrimPrefix(l, "open:"))
		for _, tok := range strings.Fields(rest) {
			if strings.HasPrefix(tok, "property=") && f.prop == "" {
				f.prop = strings.TrimPrefix(tok, "property=")
			} else if strings.HasPrefix(tok, "sig=") && f.sig == "" {
				f.sig = strings.TrimPrefix(tok, "sig=")
			}
		}
		if i := strings.Index(rest, "sig="+f.sig); i >= 0 {
			f.text = strings.TrimSpace(rest[i+len("sig="+f.sig):])
		}
		if f.prop != "" && f.sig != "" {
			res = append(res, f)
		}
	}
	return res
}

func knownFinding(fs []finding, prop, sig string) *finding {
	for i := range fs {
		if fs[i].prop == prop && fs[i].sig == sig {
			return &fs[i]
		}
	}
	return nil
}

// ---- reporting ------------------------------------------------------------------------

type report struct {
	prop       string
	tier       string
	seed       uint64
	start      time.Time
	findings   []finding
	violations int
	known      map[string]bool
	seenSig    map[string]bool
	lines      []string
}

func newReport(prop, tier string, seed uint64) *report {
	return &report{prop: prop, tier: tier, seed: seed, start: time.Now(), findings: loadFindings(), known: map[string]bool{}, seenSig: map[string]bool{}}
}

// violation records a minimised, replay-confirmed witness. Returns true if it is new.
func (rp *report) violation(r *Replay) bool {
	if rp.seenSig[r.Sig] {
		return false
	}
	rp.seenSig[r.Sig] = true
	if f := knownFinding(rp.findings, r.Property, r.Sig); f != nil {
		if !rp.known[r.Sig] {
			rp.known[r.Sig] = true
			fmt.Printf("KNOWN-FINDING: property=%s sig=%s %s\n", r.Property, r.Sig, f.text)
		}
		return false
	}
	path := saveReplay(r, "v")
	rp.violations++
	fmt.Printf("VIOLATION property=%s replay=%s\n", r.Property, path)
	fmt.Printf("  clause=%s sig=%s scenario=%s\n  %s\n", r.Clause, r.Sig, r.Scenario, r.Note)
	return true
}

// canaries replays the fixed witnesses of listed findings (/verif/known/<property>-*.json). The main
// exploration avoids the input feature behind such a finding by construction; the canary keeps
// reporting it (KNOWN-FINDING while it is listed and still reproduces, VIOLATION if it is not listed).
func (rp *report) canaries() int {
	files, _ := filepath.Glob(filepath.Join(verifRoot, "known", rp.prop+"-*.json"))
	sort.Strings(files)
	n := 0
	for _, f := range files {
		b, err := os.ReadFile(f)
		if err != nil {
			infra("canary %s: %v", f, err)
		}
		var r Replay
		if err := json.Unmarshal(b, &r); err != nil {
			infra("canary %s does not parse: %v", f, err)
		}
		_, v := runReplay(&r)
		if v.Infra != "" {
			infra("canary %s: %s", f, v.Infra)
		}
		if !v.Violated {
			fmt.Printf("note: the witness %s of a listed finding no longer reproduces (%s)\n", filepath.Base(f), v.Desc)
			continue
		}
		n++
		r.Note = v.Desc
		rp.violation(&r)
	}
	return n
}

func (rp *report) exitCode() int {
	if rp.violations > 0 {
		return 1
	}
	return 0
}

// confirm re-executes a witness in fresh processes `times` times; all must show the same
// clause. A witness that does not replay is infrastructure trouble, not a verdict.
func confirm(r *Replay, times int) (bool, string) {
	for k := 0; k < times; k++ {
		_, v := runReplay(r)
		if v.Infra != "" {
			return false, "infra: " + v.Infra
		}
		if !v.Violated {
			return false, fmt.Sprintf("replay %d/%d did not reproduce (%s)", k+1, times, v.Desc)
		}
	}
	return true, ""
}

// ---- ddmin ----------------------------------------------------------------------------

// ddmin returns a 1-minimal subset of [0,n) (ascending) for which test holds, assuming
// test(all) holds. test is called with ascending index lists.
func ddmin(n int, test func(keep []int) bool) []int {
	cur := make([]int, n)
	for i := range cur {
		cur[i] = i
	}
	gran := 2
	for len(cur) >= 2 {
		chunk := (len(cur) + gran - 1) / gran
		reduced := false
		// try complements
		for s := 0; s < len(cur); s += chunk {
			e := s + chunk
			if e > len(cur) {
				e = len(cur)
			}
			comp := append(append([]int{}, cur[:s]...), cur[e:]...)
			if len(comp) == 0 {
				continue
			}
			if test(comp) {
				cur = comp
				if gran > 2 {
					gran--
				}
				reduced = true
				break
			}
		}
		if !reduced {
			if gran >= len(cur) {
				break
			}
			gran *= 2
			if gran > len(cur) {
				gran = len(cur)
			}
		}
	}
	if len(cur) == 1 && test([]int{}) {
		return []int{}
	}
	return cur
}

func sortedKeys[V any](m map[string]V) []string {
	ks := make([]string, 0, len(m))
	for k := range m {
		ks = append(ks, k)
	}
	sort.Strings(ks)
	return ks
}

func firstDiffLine(a, b string) (int, string, string) {
	la, lb := strings.Split(a, "\n"), strings.Split(b, "\n")
	for i := 0; i < len(la) || i < len(lb); i++ {
		var x, y string
		if i < len(la) {
			x = la[i]
		}
		if i < len(lb) {
			y = lb[i]
		}
		if x != y {
			return i + 1, x, y
		}
	}
	return 0, "", ""
}

func evDigest(e *job.Event) string {
	if e == nil {
		return "nil"
	}
	if e.Panic != nil {
		return "panic:" + e.Panic.Value
	}
	return fmt.Sprintf("ok=%t out=%s", e.OK, e.OutSha)
}
