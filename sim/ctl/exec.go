package main

import (
	"bytes"
	"context"
	"encoding/json"
	"fmt"
	"os"
	"os/exec"
	"path/filepath"
	"regexp"
	"strings"
	"sync"
	"sync/atomic"
	"syscall"
	"time"

	"verifsim/job"
)

// FSEntry is one thing in a scratch tree. Exactly one of Text/Link/Dir/Raw is meaningful.
type FSEntry struct {
	Path string `json:"path"`
	Text string `json:"text,omitempty"`
	Raw  []byte `json:"raw,omitempty"`  // bytes that are not valid UTF-8
	Link string `json:"link,omitempty"` // symlink target
	Dir  bool   `json:"dir,omitempty"`  // an (empty) directory
}

// Fault is one injected system-call failure (strace seam).
type Fault struct {
	Syscall string `json:"syscall"` // read | openat | write | getdents64
	Path    string `json:"path"`    // relative to the scratch root
	Errno   string `json:"errno"`
	When    int    `json:"when"` // k-th matching call (1-based)
}

// Run is one process of the simulated system: a scratch tree plus either a node job or
// a CLI invocation.
type Run struct {
	FS     []FSEntry `json:"fs"`
	Job    *job.Job  `json:"job,omitempty"`
	CLI    []string  `json:"cli,omitempty"`
	Seed   uint64    `json:"seed"`              // VERIFMAPSEED for CLI runs (jobs carry their own)
	RealEx bool      `json:"realExe,omitempty"` // CLI through the separately linked binary
	Faults []Fault   `json:"faults,omitempty"`
}

type Result struct {
	Trace    *job.Trace
	Stdout   string
	Stderr   string
	Exit     int
	TimedOut bool
	Injected int               // number of faults that actually fired
	Files    map[string][]byte // files under out/ after the run (CLI -f targets)
	Infra    string            // harness trouble: never a verdict
}

var (
	binDir      string
	scratchBase string
	nodeTimeout = 60 * time.Second
	execCount   atomic.Int64
	injCount    atomic.Int64
	scratchSeq  atomic.Int64
	haveStrace  bool
	stracePath  string
)

var nodeEnvBase = []string{"GOMAXPROCS=1", "GOGC=off", "GODEBUG=asyncpreemptoff=1", "PATH=/usr/bin:/bin", "HOME=/nonexistent", "LANG=C"}

func initExec() {
	binDir = os.Getenv("VERIF_BIN")
	if binDir == "" {
		binDir = "/verif/bin"
	}
	base := "/dev/shm"
	if st, err := os.Stat(base); err != nil || !st.IsDir() {
		base = os.TempDir()
	}
	scratchBase = filepath.Join(base, fmt.Sprintf("vs-%08d", os.Getpid()%100000000))
	os.RemoveAll(scratchBase)
	if err := os.MkdirAll(scratchBase, 0o755); err != nil {
		infra("cannot create scratch root: %v", err)
	}
}

func cleanupExec() {
	if scratchBase != "" && os.Getenv("VERIF_KEEP") == "" {
		os.RemoveAll(scratchBase)
	}
}

func infra(f string, a ...interface{}) {
	fmt.Printf("INFRA: "+f+"\n", a...)
	cleanupExec()
	os.Exit(2)
}

// newScratch returns a fresh fixed-width scratch directory.
func newScratch() string {
	d := filepath.Join(scratchBase, fmt.Sprintf("r%010d", scratchSeq.Add(1)))
	if err := os.MkdirAll(d, 0o755); err != nil {
		infra("scratch: %v", err)
	}
	return d
}

func materialize(root string, fs []FSEntry) error {
	for _, e := range fs {
		p := filepath.Join(root, e.Path)
		if !strings.HasPrefix(p, root+string(filepath.Separator)) {
			return fmt.Errorf("fs entry escapes the scratch root: %q", e.Path)
		}
		switch {
		case e.Dir:
			if err := os.MkdirAll(p, 0o755); err != nil {
				return err
			}
		case e.Link != "":
			if err := os.MkdirAll(filepath.Dir(p), 0o755); err != nil {
				return err
			}
			if err := os.Symlink(e.Link, p); err != nil {
				return err
			}
		default:
			if err := os.MkdirAll(filepath.Dir(p), 0o755); err != nil {
				return err
			}
			data := []byte(e.Text)
			if e.Raw != nil {
				data = e.Raw
			}
			if err := os.WriteFile(p, data, 0o644); err != nil {
				return err
			}
		}
	}
	return nil
}

var injectedRe = regexp.MustCompile(`\(INJECTED\)`)

// execute runs one process of the simulated system in a fresh scratch tree.
func execute(r *Run) *Result {
	root := newScratch()
	if os.Getenv("VERIF_KEEP") == "" {
		defer os.RemoveAll(root)
	} else if r.Job != nil {
		b, _ := json.Marshal(r.Job)
		os.WriteFile(filepath.Join(root, ".job.json"), b, 0o644)
	}
	res := &Result{}
	if err := materialize(root, r.FS); err != nil {
		res.Infra = "materialize: " + err.Error()
		return res
	}
	os.MkdirAll(filepath.Join(root, "out"), 0o755)
	var argv []string
	env := append([]string{}, nodeEnvBase...)
	var stdin []byte
	if r.Job != nil {
		argv = []string{filepath.Join(binDir, "simnode"), "run"}
		b, err := json.Marshal(r.Job)
		if err != nil {
			res.Infra = "marshal job: " + err.Error()
			return res
		}
		stdin = b
		// the environment switch also quietens the runtime's background activity (see sim/rt); the
		// node re-seeds the map stream itself when the job starts
		env = append(env, "VERIFMAPSEED=0")
	} else {
		if r.RealEx {
			argv = append([]string{filepath.Join(binDir, "k8snetpolicy.sim")}, r.CLI...)
		} else {
			argv = append([]string{filepath.Join(binDir, "simnode"), "cli"}, r.CLI...)
		}
		env = append(env, fmt.Sprintf("VERIFMAPSEED=%d", r.Seed))
	}
	straceLog := ""
	if len(r.Faults) > 0 {
		if !haveStrace {
			res.Infra = "fault plan needs strace, which is unavailable"
			return res
		}
		straceLog = filepath.Join(root, ".strace.log")
		sa := []string{stracePath, "-f", "-qq", "-o", straceLog}
		calls := map[string]bool{}
		for _, f := range r.Faults {
			// strace matches path arguments literally and descriptors by their resolved path:
			// give it both spellings (the process runs with cwd = root and uses relative paths)
			sa = append(sa, "-P", filepath.Join(root, f.Path), "-P", f.Path)
			calls[f.Syscall] = true
		}
		var cs []string
		for _, c := range []string{"read", "openat", "write", "getdents64", "pread64", "newfstatat", "statx"} {
			if calls[c] {
				cs = append(cs, c)
			}
		}
		sa = append(sa, "-e", "trace="+strings.Join(cs, ","))
		for _, f := range r.Faults {
			sa = append(sa, "-e", fmt.Sprintf("inject=%s:error=%s:when=%d", f.Syscall, f.Errno, f.When))
		}
		argv = append(sa, argv...)
	}
	ctx, cancel := context.WithTimeout(context.Background(), nodeTimeout)
	defer cancel()
	cmd := exec.CommandContext(ctx, argv[0], argv[1:]...)
	cmd.Dir = root
	cmd.Env = env
	cmd.Stdin = bytes.NewReader(stdin)
	var so, se bytes.Buffer
	cmd.Stdout = &so
	cmd.Stderr = &se
	cmd.SysProcAttr = &syscall.SysProcAttr{Setpgid: true}
	cmd.Cancel = func() error { return syscall.Kill(-cmd.Process.Pid, syscall.SIGKILL) }
	var tracePath string
	if r.Job != nil {
		tracePath = filepath.Join(root, ".trace.json")
		tf, err := os.Create(tracePath)
		if err != nil {
			res.Infra = err.Error()
			return res
		}
		defer tf.Close()
		cmd.ExtraFiles = []*os.File{tf}
	}
	err := cmd.Run()
	execCount.Add(1)
	res.Stdout, res.Stderr = so.String(), se.String()
	if ctx.Err() == context.DeadlineExceeded {
		res.TimedOut = true
	}
	if err != nil {
		if ee, ok := err.(*exec.ExitError); ok {
			res.Exit = ee.ExitCode()
			if res.Exit < 0 {
				res.Exit = 128 + int(ee.Sys().(syscall.WaitStatus).Signal())
			}
		} else if !res.TimedOut {
			res.Infra = "launch: " + err.Error()
			return res
		}
	}
	if tracePath != "" {
		b, err := os.ReadFile(tracePath)
		if err == nil && len(b) > 0 {
			var t job.Trace
			if err := json.Unmarshal(b, &t); err == nil {
				res.Trace = &t
			} else {
				res.Infra = "trace does not parse: " + err.Error()
			}
		}
	}
	if straceLog != "" {
		if b, err := os.ReadFile(straceLog); err == nil {
			res.Injected = len(injectedRe.FindAll(b, -1))
			injCount.Add(int64(res.Injected))
		}
	}
	// collect out/
	ents, _ := os.ReadDir(filepath.Join(root, "out"))
	for _, e := range ents {
		if e.Type().IsRegular() {
			if b, err := os.ReadFile(filepath.Join(root, "out", e.Name())); err == nil {
				if res.Files == nil {
					res.Files = map[string][]byte{}
				}
				res.Files["out/"+e.Name()] = b
			}
		}
	}
	return res
}

// parallel runs f(i) for i in [0,n) on `workers` goroutines. Results must be written by
// index; callers fold them in index order afterwards, so worker scheduling decides nothing.
func parallel(n, workers int, f func(i int)) {
	if workers < 1 {
		workers = 1
	}
	var next atomic.Int64
	var wg sync.WaitGroup
	for w := 0; w < workers; w++ {
		wg.Add(1)
		go func() {
			defer wg.Done()
			for {
				i := int(next.Add(1)) - 1
				if i >= n {
					return
				}
				f(i)
			}
		}()
	}
	wg.Wait()
}

func checkStrace() {
	haveStrace = false
	sp, err := exec.LookPath("strace")
	if err != nil {
		return
	}
	stracePath = sp
	d := newScratch()
	defer os.RemoveAll(d)
	p := filepath.Join(d, "probe")
	os.WriteFile(p, []byte("x"), 0o644)
	cmd := exec.Command(stracePath, "-f", "-qq", "-o", filepath.Join(d, "log"), "-P", p, "-e", "trace=openat", "-e", "inject=openat:error=EACCES:when=1", "/bin/cat", p)
	err = cmd.Run()
	b, _ := os.ReadFile(filepath.Join(d, "log"))
	if err != nil && injectedRe.Match(b) {
		haveStrace = true
	}
}
