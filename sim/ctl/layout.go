package main

import (
	"fmt"
	"os"
	"path/filepath"
	"sort"
	"strings"
	"unicode/utf8"

	"sigs.k8s.io/yaml"
)

// LFile is one file of a layout: an ordered list of document indices.
type LFile struct {
	Path string `json:"path"`
	Docs []int  `json:"docs"`
	JSON bool   `json:"json,omitempty"` // rendered as a stream of JSON objects (path ends in .json)
	Link bool   `json:"link,omitempty"` // stored outside the directory and reached through a symlink
	List bool   `json:"list,omitempty"` // its documents are wrapped into one `kind: List`
	// Dress: the same documents written the way another editor or tool writes them (YAML files only):
	// 1 a leading separator and a comment header, 2 doubled separators (empty documents in between) and a
	// trailing separator, 3 CRLF line endings
	Dress int `json:"dress,omitempty"`
}

// Layout assigns every document of a resource set to a file and a position.
type Layout []LFile

func joinDocs(docs []Doc, idx []int) string {
	var sb strings.Builder
	for k, i := range idx {
		if k > 0 {
			sb.WriteString("---\n")
		}
		t := docs[i].Text
		sb.WriteString(t)
		if !strings.HasSuffix(t, "\n") {
			sb.WriteString("\n")
		}
	}
	return sb.String()
}

func joinDocsJSON(docs []Doc, idx []int) (string, bool) {
	var sb strings.Builder
	for _, i := range idx {
		b, err := yaml.YAMLToJSON([]byte(docs[i].Text))
		if err != nil || strings.TrimSpace(string(b)) == "null" {
			return "", false
		}
		sb.Write(b)
		sb.WriteString("\n")
	}
	return sb.String(), true
}

// joinDocsList wraps the documents into one v1 List (the directory scanner flattens it again).
func joinDocsList(docs []Doc, idx []int) (string, bool) {
	var items []interface{}
	for _, i := range idx {
		var m map[string]interface{}
		if err := yaml.Unmarshal([]byte(docs[i].Text), &m); err != nil || m == nil {
			return "", false
		}
		if k, _ := m["kind"].(string); strings.HasSuffix(k, "List") {
			return "", false
		}
		items = append(items, m)
	}
	lst := map[string]interface{}{"apiVersion": "v1", "kind": "List", "items": items}
	if len(idx) > 0 && hashStr(3, docs[idx[0]].Text)%2 == 0 {
		// what `kubectl get -o yaml` writes: list-level metadata (the scanner copies its resourceVersion onto every item)
		lst["metadata"] = map[string]interface{}{"resourceVersion": "184467"}
	}
	b, err := yaml.Marshal(lst)
	if err != nil {
		return "", false
	}
	return string(b), true
}

func (l Layout) fs(prefix string, docs []Doc) []FSEntry {
	res := []FSEntry{{Path: prefix, Dir: true}}
	for k, f := range l {
		text := joinDocs(docs, f.Docs)
		path := f.Path
		if f.List && !f.JSON {
			if t, ok := joinDocsList(docs, f.Docs); ok {
				text = t
			}
		}
		if !f.JSON && !f.List {
			text = dress(text, f.Dress)
		}
		if f.JSON {
			if t, ok := joinDocsJSON(docs, f.Docs); ok {
				text = t
			} else {
				path = strings.TrimSuffix(path, ".json") + ".yaml"
			}
		}
		if f.Link {
			store := fmt.Sprintf("%s.store/s%03d%s", prefix, k, filepath.Ext(path))
			rel, err := filepath.Rel(filepath.Dir(filepath.Join(prefix, path)), store)
			if err == nil {
				res = append(res, FSEntry{Path: store, Text: text}, FSEntry{Path: filepath.Join(prefix, path), Link: rel})
				continue
			}
		}
		res = append(res, FSEntry{Path: filepath.Join(prefix, path), Text: text})
	}
	return res
}

func dress(text string, how int) string {
	switch how {
	case 1:
		return "---\n# exported by tooling\n" + text
	case 2:
		return strings.ReplaceAll(text, "\n---\n", "\n---\n---\n") + "---\n"
	case 3:
		return strings.ReplaceAll(text, "\n", "\r\n")
	}
	return text
}

// canonicalLayout: one file per document, in generation order.
func canonicalLayout(n int) Layout {
	l := make(Layout, n)
	for i := 0; i < n; i++ {
		l[i] = LFile{Path: fmt.Sprintf("d%03d.yaml", i), Docs: []int{i}}
	}
	return l
}

var layoutDirs = []string{"", "", "a", "b/c", "zz", "k.yaml"} // the last one: a directory named like a manifest
var layoutExts = []string{".yaml", ".yaml", ".yml", ".json"}

// randomLayout permutes the documents and cuts the permutation into files with names
// whose lexical order (the order the directory walker uses) is itself random.
func randomLayout(r *rng, n int) Layout {
	if n == 0 {
		return Layout{}
	}
	p := r.perm(n)
	nfiles := 1
	switch r.intn(4) {
	case 0:
		nfiles = 1
	case 1:
		nfiles = n
	default:
		nfiles = r.between(1, n)
	}
	// choose cut points
	cuts := map[int]bool{}
	for len(cuts) < nfiles-1 {
		cuts[r.between(1, n-1)] = true
	}
	var l Layout
	cur := []int{}
	flush := func() {
		if len(cur) == 0 {
			return
		}
		ext := pick(r, layoutExts)
		name := fmt.Sprintf("%s%02d%s", string(rune('a'+r.intn(26))), len(l), ext)
		l = append(l, LFile{Path: filepath.Join(pick(r, layoutDirs), name), Docs: cur, JSON: ext == ".json", Link: r.chance(1, 8), List: r.chance(1, 6), Dress: []int{0, 0, 0, 0, 0, 1, 2, 3}[r.intn(8)]})
		cur = []int{}
	}
	for k, i := range p {
		if cuts[k] {
			flush()
		}
		cur = append(cur, i)
	}
	flush()
	return l
}

// restrict keeps only the documents in keep (old indices, ascending) and renumbers.
func (l Layout) restrict(keep []int) Layout {
	m := map[int]int{}
	for ni, oi := range keep {
		m[oi] = ni
	}
	var res Layout
	for _, f := range l {
		var d []int
		for _, i := range f.Docs {
			if ni, ok := m[i]; ok {
				d = append(d, ni)
			}
		}
		if len(d) > 0 {
			res = append(res, LFile{Path: f.Path, Docs: d, JSON: f.JSON, Link: f.Link, List: f.List, Dress: f.Dress})
		}
	}
	return res
}

// ---- corpus ---------------------------------------------------------------------------

type CorpusDir struct {
	Name     string
	Files    []FSEntry // verbatim copy, paths relative to the directory
	Docs     []Doc     // split documents (only meaningful if Relayout)
	Relayout bool      // every document parses, none is duplicated: reorder/re-partition is sound
	NDocs    int
}

func isManifestName(p string) bool {
	e := strings.ToLower(filepath.Ext(p))
	return e == ".yaml" || e == ".yml" || e == ".json"
}

func splitYAMLDocs(text string) []string {
	var docs []string
	var cur []string
	flush := func() {
		s := strings.Join(cur, "\n")
		if strings.TrimSpace(stripComments(s)) != "" {
			docs = append(docs, s+"\n")
		}
		cur = nil
	}
	for _, line := range strings.Split(strings.ReplaceAll(text, "\r\n", "\n"), "\n") {
		if strings.TrimRight(line, " \t") == "---" {
			flush()
			continue
		}
		cur = append(cur, line)
	}
	flush()
	return docs
}

func stripComments(s string) string {
	var out []string
	for _, l := range strings.Split(s, "\n") {
		if t := strings.TrimSpace(l); strings.HasPrefix(t, "#") {
			continue
		}
		out = append(out, l)
	}
	return strings.Join(out, "\n")
}

func docIdent(text string) (kind, ns, name string, items []map[string]interface{}, ok bool) {
	var m map[string]interface{}
	if err := yaml.Unmarshal([]byte(text), &m); err != nil || m == nil {
		return "", "", "", nil, false
	}
	kind, _ = m["kind"].(string)
	if kind == "" {
		return "", "", "", nil, false
	}
	if md, okm := m["metadata"].(map[string]interface{}); okm {
		ns, _ = md["namespace"].(string)
		name, _ = md["name"].(string)
	}
	if its, okl := m["items"].([]interface{}); okl {
		for _, it := range its {
			if im, okm := it.(map[string]interface{}); okm {
				items = append(items, im)
			}
		}
	}
	return kind, ns, name, items, true
}

var corpusCache = map[string][]CorpusDir{}

// loadCorpus reads and splits the corpus once per process.
func loadCorpus(root string) ([]CorpusDir, error) {
	if c, ok := corpusCache[root]; ok {
		return c, nil
	}
	c, err := loadCorpusUncached(root)
	if err == nil {
		corpusCache[root] = c
	}
	return c, err
}

func loadCorpusUncached(root string) ([]CorpusDir, error) {
	ents, err := os.ReadDir(root)
	if err != nil {
		return nil, err
	}
	var res []CorpusDir
	for _, e := range ents {
		if !e.IsDir() {
			continue
		}
		cd := CorpusDir{Name: e.Name(), Relayout: true}
		base := filepath.Join(root, e.Name())
		seen := map[string]bool{}
		var paths []string
		filepath.Walk(base, func(p string, info os.FileInfo, err error) error {
			if err == nil && info.Mode().IsRegular() {
				paths = append(paths, p)
			}
			return nil
		})
		sort.Strings(paths)
		for _, p := range paths {
			b, err := os.ReadFile(p)
			if err != nil {
				return nil, err
			}
			rel, _ := filepath.Rel(base, p)
			if utf8.Valid(b) {
				cd.Files = append(cd.Files, FSEntry{Path: rel, Text: string(b)})
			} else {
				cd.Files = append(cd.Files, FSEntry{Path: rel, Raw: b})
				cd.Relayout = false
				continue
			}
			if !isManifestName(p) {
				continue
			}
			if strings.ToLower(filepath.Ext(p)) == ".json" {
				cd.Relayout = false // keep JSON files as they are
				continue
			}
			for _, dt := range splitYAMLDocs(string(b)) {
				kind, ns, name, items, ok := docIdent(dt)
				if !ok {
					cd.Relayout = false
					continue
				}
				d := Doc{Kind: kind, NS: ns, Name: name, Text: dt}
				cd.Docs = append(cd.Docs, d)
				keys := []string{d.key()}
				if len(items) > 0 {
					keys = nil
					for _, it := range items {
						k, _ := it["kind"].(string)
						var n2, ns2 string
						if md, okm := it["metadata"].(map[string]interface{}); okm {
							n2, _ = md["name"].(string)
							ns2, _ = md["namespace"].(string)
						}
						keys = append(keys, k+"/"+ns2+"/"+n2)
					}
				}
				for _, k := range keys {
					// namespace "" and "default" are the same place
					k2 := strings.Replace(k, "//", "/default/", 1)
					if seen[k2] {
						cd.Relayout = false
					}
					seen[k2] = true
				}
			}
		}
		cd.NDocs = len(cd.Docs)
		if len(cd.Files) > 0 {
			res = append(res, cd)
		}
	}
	return res, nil
}

func (c *CorpusDir) verbatimFS(prefix string) []FSEntry {
	res := []FSEntry{{Path: prefix, Dir: true}}
	for _, f := range c.Files {
		g := f
		g.Path = filepath.Join(prefix, f.Path)
		res = append(res, g)
	}
	return res
}
