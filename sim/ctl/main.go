// simctl is the simulator: it makes every choice (from VERIF_SEED), launches the
// simulated processes, evaluates the oracles over their traces, minimises and replays
// witnesses, and writes evidence.
//
//	simctl check <property> <quick|thorough>
//	simctl replay <file>
//	simctl selftest <n-jobs> <repeats>
//
// Exit status: 0 property held on everything explored, 1 violation, 2 infrastructure.
package main

import (
	"encoding/json"
	"fmt"
	"os"
	"strconv"
	"time"
)

func envInt(name string) int {
	v, err := strconv.Atoi(os.Getenv(name))
	if err != nil {
		return 0
	}
	return v
}

func sinceS(t time.Time) float64 { return float64(time.Since(t).Milliseconds()) / 1000 }

func perHour(n int, start time.Time) int {
	s := time.Since(start).Seconds()
	if s <= 0 {
		return 0
	}
	return int(float64(n) * 3600 / s)
}

func seedFromEnv() uint64 {
	s := os.Getenv("VERIF_SEED")
	if s == "" {
		return 1
	}
	v, err := strconv.ParseInt(s, 10, 64)
	if err != nil {
		u, err2 := strconv.ParseUint(s, 10, 64)
		if err2 != nil {
			fmt.Printf("INFRA: VERIF_SEED=%q is not an integer\n", s)
			os.Exit(2)
		}
		return u
	}
	return uint64(v)
}

var runners = map[string]func(tier string, seed uint64) int{}

func main() {
	if len(os.Args) < 2 {
		fmt.Println("usage: simctl check <property> <tier> | replay <file> | selftest")
		os.Exit(2)
	}
	if v := envInt("VERIF_WORKERS"); v > 0 {
		workers = v
	}
	if v := os.Getenv("VERIF_ROOT"); v != "" {
		verifRoot = v
	}
	if v := os.Getenv("VERIF_REPO"); v != "" {
		repoRoot = v
	}
	initExec()
	code := 2
	func() {
		defer cleanupExec()
		switch os.Args[1] {
		case "check":
			if len(os.Args) != 4 {
				fmt.Println("usage: simctl check <property> <quick|thorough>")
				return
			}
			prop, tier := os.Args[2], os.Args[3]
			if tier != "quick" && tier != "thorough" {
				fmt.Println("INFRA: tier must be quick or thorough")
				return
			}
			seed := seedFromEnv()
			fmt.Printf("VERIF_SEED=%d property=%s tier=%s workers=%d\n", seed, prop, tier, workers)
			run, ok := runners[prop]
			if !ok {
				fmt.Printf("INFRA: no check for property %s\n", prop)
				return
			}
			checkStrace()
			if !selftest(seed, prop, tier) {
				return
			}
			code = run(tier, seed)
		case "replay":
			if len(os.Args) != 3 {
				fmt.Println("usage: simctl replay <file>")
				return
			}
			code = replayFile(os.Args[2])
		case "selftest":
			checkStrace()
			if selftest(seedFromEnv(), "all", "thorough") {
				code = 0
			}
		default:
			fmt.Println("unknown command", os.Args[1])
		}
	}()
	os.Exit(code)
}

func replayFile(path string) int {
	b, err := os.ReadFile(path)
	if err != nil {
		fmt.Println("INFRA:", err)
		return 2
	}
	var r Replay
	if err := json.Unmarshal(b, &r); err != nil {
		fmt.Println("INFRA: replay file does not parse:", err)
		return 2
	}
	checkStrace()
	fmt.Printf("replaying %s: property=%s clause=%q scenario=%s (%d runs)\n", path, r.Property, r.Clause, r.Scenario, len(r.Runs))
	res, v := runReplay(&r)
	if v.Infra != "" {
		fmt.Println("INFRA:", v.Infra)
		return 2
	}
	for i, x := range res {
		fmt.Printf("  run %d: exit=%d injected=%d", i, x.Exit, x.Injected)
		if x.Trace != nil {
			for _, e := range x.Trace.Events {
				fmt.Printf(" [%s]", evDigest(&e))
			}
		}
		fmt.Println()
	}
	fmt.Printf("  digests now:      %v\n  digests recorded: %v\n", v.Digests, r.Observed)
	if v.Violated {
		same := fmt.Sprint(v.Digests) == fmt.Sprint(r.Observed)
		fmt.Printf("VIOLATION property=%s replay=%s\n  %s (identical to the recorded observation: %t)\n", r.Property, path, v.Desc, same)
		return 1
	}
	fmt.Printf("not reproduced: %s\n", v.Desc)
	return 0
}
