package main

// All choices of the simulator come from here. One integer (VERIF_SEED) decides
// everything: sub-streams are derived by hashing (seed, labels...), never by sharing a
// generator between scenarios, so scenario i is the same whatever ran before it and
// however many workers there are.

type rng struct{ s uint64 }

func mix(z uint64) uint64 {
	z += 0x9e3779b97f4a7c15
	z = (z ^ (z >> 30)) * 0xbf58476d1ce4e5b9
	z = (z ^ (z >> 27)) * 0x94d049bb133111eb
	return z ^ (z >> 31)
}

func hashStr(h uint64, s string) uint64 {
	for i := 0; i < len(s); i++ {
		h = mix(h ^ uint64(s[i]))
	}
	return mix(h ^ 0xff)
}

// sub derives an independent stream from a seed and a path of labels.
func sub(seed uint64, labels ...interface{}) *rng {
	h := mix(seed)
	for _, l := range labels {
		switch v := l.(type) {
		case string:
			h = hashStr(h, v)
		case int:
			h = mix(h ^ uint64(v) ^ 0xabcdef)
		case uint64:
			h = mix(h ^ v ^ 0x123457)
		default:
			panic("sub: bad label type")
		}
	}
	return &rng{h}
}

func (r *rng) u64() uint64 {
	r.s += 0x9e3779b97f4a7c15
	z := r.s
	z = (z ^ (z >> 30)) * 0xbf58476d1ce4e5b9
	z = (z ^ (z >> 27)) * 0x94d049bb133111eb
	return z ^ (z >> 31)
}

func (r *rng) intn(n int) int {
	if n <= 0 {
		panic("intn")
	}
	return int(r.u64() % uint64(n))
}

// between returns an integer in [lo, hi].
func (r *rng) between(lo, hi int) int { return lo + r.intn(hi-lo+1) }

func (r *rng) chance(num, den int) bool { return r.intn(den) < num }

func (r *rng) perm(n int) []int {
	p := make([]int, n)
	for i := range p {
		p[i] = i
	}
	for i := n - 1; i > 0; i-- {
		j := r.intn(i + 1)
		p[i], p[j] = p[j], p[i]
	}
	return p
}

func pick[T any](r *rng, xs []T) T { return xs[r.intn(len(xs))] }

// weighted picks an index with probability proportional to w[i].
func (r *rng) weighted(w []int) int {
	t := 0
	for _, x := range w {
		t += x
	}
	k := r.intn(t)
	for i, x := range w {
		if k < x {
			return i
		}
		k -= x
	}
	return len(w) - 1
}
