package main

import (
	"encoding/json"
	"fmt"
	"path/filepath"
	"time"

	"verifsim/job"
)

// selftest proves, before any verdict is believed, that one seed is one execution: a
// sample of jobs is run in many fresh processes, spread over all workers, and the traces
// (outputs, peer orders, cumulative map-randomness draw counts) must be byte-identical.
// It also checks that the seam is live: different seeds must give different peer orders.
// selftestDivergence: a self-test job whose output (and only its output) differed between identical executions.
var selftestDivergence *Run

func selftest(seed uint64, prop, tier string) bool {
	nJobs, repeats := 6, 30
	if tier == "thorough" {
		nJobs, repeats = 24, 30
	}
	var runs []Run
	corpus, err := loadCorpus(filepath.Join(repoRoot, "tests"))
	if err != nil || len(corpus) == 0 {
		fmt.Printf("INFRA: selftest cannot load the corpus: %v\n", err)
		return false
	}
	r := sub(seed, "selftest")
	for i := 0; i < nJobs; i++ {
		var c *c08Case
		if i%2 == 0 {
			cd := &corpus[r.intn(len(corpus))]
			c = &c08Case{name: "st-corpus:" + cd.Name, files: cd.Files, files2: cd.Files}
		} else {
			rr := sub(seed, "selftest", "gen", i)
			f := drawFeatures(rr)
			w := genWorld(rr, f)
			c = &c08Case{name: fmt.Sprintf("st-gen:%d", i), relayout: true, docs: w.Docs, docs2: editSet(rr, w.Docs, &f), hasAdmin: w.HasAdmin}
		}
		v := c.variant(r, 2)
		runs = append(runs, c.run(v, c08Steps(c), false))
	}
	if prop == "C15" || prop == "all" {
		for i := 0; i < nJobs/2+1; i++ {
			h := genHistory(sub(seed, "selftest", "hist", i), 40)
			runs = append(runs, Run{Job: h.job(fmt.Sprintf("st-hist:%d", i), r.u64()>>1)})
		}
	}
	type out struct {
		s      string
		infra  string
		extra  string
		masked string
	}
	outs := make([]out, len(runs)*repeats)
	// some corpus directories take tens of seconds on a loaded machine; a slow self-test run is not a finding
	saved := nodeTimeout
	nodeTimeout = 10 * time.Minute
	defer func() { nodeTimeout = saved }()
	parallel(len(outs), workers, func(k int) {
		res := execute(&runs[k/repeats])
		if res.Infra != "" || res.Trace == nil {
			outs[k].infra = fmt.Sprintf("%s (exit %d) %s", res.Infra, res.Exit, tail(res.Stderr, 300))
			return
		}
		if res.Trace.NumGC != 0 || res.Trace.Fail != "" {
			outs[k].infra = fmt.Sprintf("node not quiescent: numGC=%d goroutines=%d fail=%q", res.Trace.NumGC, res.Trace.Goroutines, res.Trace.Fail)
			return
		}
		// a second goroutine alive at the end (seen once under heavy machine load) is recorded, not fatal:
		// what is compared is everything the code under test produced, draw counts included
		if res.Trace.Goroutines > 1 {
			outs[k].extra = fmt.Sprintf("goroutines=%d at exit: %s", res.Trace.Goroutines, head(res.Trace.Stacks, 1500))
		}
		t := *res.Trace
		t.Goroutines, t.Stacks = 0, ""
		b, _ := json.Marshal(&t)
		outs[k].s = string(b)
		// the same trace without what the commands printed: everything the simulator itself controls
		// (draw counts, peer order, relations, errors). If only the printed bytes differ between two
		// identical executions, that is the code under test being nondeterministic (C08), not the simulator.
		m := t
		m.Events = append([]job.Event{}, t.Events...)
		for i := range m.Events {
			m.Events[i].Out, m.Events[i].OutSha = "", ""
		}
		mb, _ := json.Marshal(&m)
		outs[k].masked = string(mb)
	})
	for k := range outs {
		if outs[k].extra != "" {
			fmt.Printf("note: selftest job %d repeat %d: %s\n", k/repeats, k%repeats, outs[k].extra)
		}
		if outs[k].infra != "" {
			fmt.Printf("INFRA: selftest job %d: %s\n", k/repeats, outs[k].infra)
			return false
		}
		if outs[k].s != outs[(k/repeats)*repeats].s {
			if outs[k].masked == outs[(k/repeats)*repeats].masked {
				if selftestDivergence == nil {
					r := runs[k/repeats]
					selftestDivergence = &r
					fmt.Printf("note: self-test job %d (%s): two identical executions (same files, same seeded schedule) printed different output; everything the simulator controls is identical. That is C08's to report.\n", k/repeats, r.Job.ID)
				}
				continue
			}
			fmt.Printf("INFRA: determinism self-test failed: job %d (%s) repeat %d differs from repeat 0\n", k/repeats, runs[k/repeats].Job.ID, k%repeats)
			return false
		}
	}
	// liveness of the seam: the same job under another seed must reach another peer order
	live := false
	for i := 0; i < len(runs) && !live; i++ {
		if runs[i].Job.Steps[0].Kind != job.List {
			continue
		}
		seen := map[string]bool{}
		for s := uint64(1); s <= 6; s++ {
			j := *runs[i].Job
			j.MapSeed = s
			run := Run{FS: runs[i].FS, Job: &j}
			res := execute(&run)
			if res.Trace != nil && len(res.Trace.Events) > 0 {
				seen[res.Trace.Events[0].PeerSha] = true
			}
		}
		if len(seen) >= 2 {
			live = true
		}
	}
	if !live {
		fmt.Println("INFRA: map-order seam is not live: no job changed its peer order across 6 seeds")
		return false
	}
	fmt.Printf("selftest: %d jobs x %d fresh processes identical; map-order seam live; strace fault seam available=%t\n", len(runs), repeats, haveStrace)
	return true
}
