package main

import (
	"fmt"
	"sort"
	"strings"

	routev1 "github.com/openshift/api/route/v1"
	appsv1 "k8s.io/api/apps/v1"
	batchv1 "k8s.io/api/batch/v1"
	corev1 "k8s.io/api/core/v1"
	netv1 "k8s.io/api/networking/v1"
	metav1 "k8s.io/apimachinery/pkg/apis/meta/v1"
	"k8s.io/apimachinery/pkg/types"
	"k8s.io/apimachinery/pkg/util/intstr"
	apisv1a "sigs.k8s.io/network-policy-api/apis/v1alpha1"
	"sigs.k8s.io/yaml"
)

// Doc is one YAML document of a resource set.
type Doc struct {
	Kind string `json:"kind"`
	NS   string `json:"ns,omitempty"`
	Name string `json:"name"`
	Text string `json:"text"`
}

func (d Doc) key() string { return d.Kind + "/" + d.NS + "/" + d.Name }

// World is a generated, valid resource set plus what the scenarios need to know about it.
type World struct {
	Docs      []Doc
	Pods      []string // "ns/name" of bare Pod objects (eval can address these)
	Workloads []string // "ns/name" of every workload peer (owner level)
	HasAdmin  bool
	HasNsObj  map[string]bool
	NSs       []string
}

// Features is the swarm mask of one world.
type Features struct {
	NNamespaces  int
	NsObjProb    int // out of 4: probability that a namespace has a Namespace object
	Kinds        []string
	NWorkloads   int
	NNetpols     int
	NANPs        int
	BANP         bool
	Ingress      bool
	IPBlocks     bool
	NamedPorts   bool
	Exprs        bool
	SharedOwner  bool // several bare pods under one controller
	AllNsObjs    bool // every namespace has an object (needed by the eval CLI)
	PodsOnly     bool // only bare pods (eval CLI)
	PortDrift    bool // pods of one owner agree on labels but not on container ports (a rollout in progress)
	Broad        bool // many policies with mostly empty selectors: several policies select the same pods
	Large        bool // more than a bucket's worth of everything: maps grow, outputs get long
	DefaultNS    bool // one namespace is `default`, and resources in it may leave the namespace field out
	OnlyIP       bool // every rule peer is an ipBlock (workloads talk to addresses only)
	Iso          bool // an extra namespace "iso" whose only workload is cut off from every real peer but not from hypothetical ones
	IngressHeavy bool // force the ingress-heavy profile (otherwise a third of the worlds with ingress resources)
	HostAddrs    bool // ipBlocks may be single addresses: the nodes' (the classic "let the kubelet probe"), a pod's, a stranger's
	// selectors with expressions written so far in this world: a later rule may say the same thing in another spelling
	// (expressions or values in another order), as happens when policies are written by different people
	pool *[]metav1.LabelSelector
}

var allKinds = []string{"Deployment", "ReplicaSet", "StatefulSet", "DaemonSet", "Job", "CronJob", "ReplicationController", "Pod"}

func drawFeatures(r *rng) Features {
	f := Features{
		NNamespaces: r.between(1, 3),
		NsObjProb:   r.between(0, 4),
		NWorkloads:  r.between(2, 6),
		NNetpols:    r.between(0, 5),
		Ingress:     r.chance(1, 4),
		IPBlocks:    r.chance(1, 2),
		NamedPorts:  r.chance(1, 2),
		Exprs:       r.chance(1, 2),
		SharedOwner: r.chance(1, 3),
	}
	f.PortDrift = f.SharedOwner && r.chance(1, 3)
	f.DefaultNS = r.chance(1, 4)
	f.Iso = r.chance(1, 5)
	f.HostAddrs = r.chance(1, 4)
	if r.chance(1, 10) {
		f.Large = true
		f.NNamespaces = 3
		f.NWorkloads = r.between(10, 16)
		f.NNetpols = r.between(6, 10)
		f.NsObjProb = r.between(2, 4)
	}
	if r.chance(1, 2) {
		// overlap profile: few namespaces, many policies whose selectors are mostly empty, so that pods
		// are governed by several policies at once and cluster-wide / external exposure is common
		f.Broad = true
		f.NNamespaces = r.between(1, 2)
		f.NNetpols = r.between(4, 8)
		f.NANPs, f.BANP = 0, false
		f.IPBlocks = true
	}
	if r.chance(1, 3) {
		f.NANPs = r.between(1, 4)
		f.BANP = r.chance(1, 2)
	} else if r.chance(1, 8) {
		f.BANP = true
	}
	// subset of kinds, at least two
	p := r.perm(len(allKinds))
	n := r.between(2, len(allKinds))
	for _, i := range p[:n] {
		f.Kinds = append(f.Kinds, allKinds[i])
	}
	sort.Strings(f.Kinds)
	return f
}

var (
	labelKeys = []string{"app", "tier", "env"}
	labelVals = []string{"a", "b", "c"}
	nsNames   = []string{"alpha", "beta", "gamma"}
	cidrs     = []struct {
		c  string
		ex []string
	}{
		{"10.0.0.0/8", []string{"10.1.0.0/16", "10.128.0.0/9"}},
		{"172.16.0.0/12", []string{"172.16.5.0/24"}},
		{"192.168.1.0/24", []string{"192.168.1.128/25", "192.168.1.0/30"}},
		{"0.0.0.0/0", []string{"10.0.0.0/8", "128.0.0.0/1"}},
		{"10.1.2.0/24", nil},
		{"9.0.0.0/8", []string{"9.9.0.0/16"}}, // sorts after 10.x as text and before it as an address
		{"100.64.0.0/10", nil},
	}
	// single addresses: the host IP of pods from Pod manifests, the one the analyzer gives to pods it derives from
	// workload resources, the pod IP of Pod manifests, and two strangers
	hostCidrs = []string{"192.168.49.2/32", "127.0.0.1/32", "10.244.0.7/32", "192.168.49.3/32", "8.8.8.8/32"}
	portNums  = []int32{53, 80, 443, 8080, 9090}
	protos    = []corev1.Protocol{corev1.ProtocolTCP, corev1.ProtocolUDP, corev1.ProtocolSCTP}
)

type portDecl struct {
	name  string
	num   int32
	proto corev1.Protocol
}

var portDecls = []portDecl{
	{"http", 80, corev1.ProtocolTCP}, {"http", 8080, corev1.ProtocolTCP}, {"metrics", 9090, corev1.ProtocolTCP},
	{"dns", 53, corev1.ProtocolUDP}, {"", 443, corev1.ProtocolTCP}, {"sctp", 9999, corev1.ProtocolSCTP},
}

func toDoc(kind, ns, name string, obj interface{}) Doc {
	b, err := yaml.Marshal(obj)
	if err != nil {
		panic(err)
	}
	return Doc{Kind: kind, NS: ns, Name: name, Text: string(b)}
}

func (f *Features) keys() []string {
	if f.Broad {
		return labelKeys[:2] // small vocabulary: selectors and pods meet often
	}
	return labelKeys
}

func (f *Features) vals() []string {
	if f.Broad {
		return labelVals[:2]
	}
	return labelVals
}

// randLabelsF draws pod labels from the world's vocabulary.
func randLabelsF(r *rng, f *Features, min int) map[string]string {
	m := map[string]string{}
	for _, k := range f.keys() {
		if r.chance(2, 3) {
			m[k] = pick(r, f.vals())
		}
	}
	for len(m) < min {
		m[pick(r, f.keys())] = pick(r, f.vals())
	}
	return m
}

func randLabels(r *rng, min int) map[string]string {
	m := map[string]string{}
	for _, k := range labelKeys {
		if r.chance(1, 2) {
			m[k] = pick(r, labelVals)
		}
	}
	for len(m) < min {
		m[pick(r, labelKeys)] = pick(r, labelVals)
	}
	return m
}

func randSelector(r *rng, f *Features, allowEmpty bool) metav1.LabelSelector {
	s := metav1.LabelSelector{}
	if allowEmpty && (r.chance(1, 4) || (f.Broad && r.chance(1, 2))) {
		return s
	}
	if !f.Exprs || r.chance(1, 2) {
		s.MatchLabels = map[string]string{pick(r, f.keys()): pick(r, f.vals())}
		if r.chance(1, 4) {
			s.MatchLabels[pick(r, f.keys())] = pick(r, f.vals())
		}
		return s
	}
	if f.pool != nil && len(*f.pool) > 0 && r.chance(1, 3) {
		return respellSelector(pick(r, *f.pool))
	}
	n := r.between(1, 2)
	for i := 0; i < n; i++ {
		e := metav1.LabelSelectorRequirement{Key: pick(r, f.keys())}
		if i == 1 && r.chance(1, 2) {
			e.Key = s.MatchExpressions[0].Key // two requirements on one key
		}
		switch r.intn(4) {
		case 0:
			e.Operator = metav1.LabelSelectorOpIn
			e.Values = []string{pick(r, f.vals())}
			if r.chance(1, 2) {
				e.Values = append(e.Values, pick(r, f.vals()))
			}
		case 1:
			e.Operator = metav1.LabelSelectorOpNotIn
			e.Values = []string{pick(r, f.vals())}
		case 2:
			e.Operator = metav1.LabelSelectorOpExists
		default:
			e.Operator = metav1.LabelSelectorOpDoesNotExist
		}
		s.MatchExpressions = append(s.MatchExpressions, e)
	}
	if r.chance(1, 4) {
		s.MatchLabels = map[string]string{pick(r, f.keys()): pick(r, f.vals())}
	}
	if f.pool != nil {
		*f.pool = append(*f.pool, s)
		if len(s.MatchExpressions) == 2 && s.MatchExpressions[0].Key == s.MatchExpressions[1].Key {
			*f.pool = append(*f.pool, s, s, s) // the order of these two is the least canonical thing about a selector
		}
	}
	return s
}

// exported gives every document what a dump of a live cluster carries in its metadata: a uid of its own, a
// resourceVersion, a creation time. Nothing the analysis reads changes.
func exported(r *rng, docs []Doc) []Doc {
	out := make([]Doc, len(docs))
	for i, d := range docs {
		out[i] = d
		var m map[string]interface{}
		if err := yaml.Unmarshal([]byte(d.Text), &m); err != nil || m == nil {
			continue
		}
		md, ok := m["metadata"].(map[string]interface{})
		if !ok {
			continue
		}
		md["uid"] = fmt.Sprintf("%08x-0000-4000-8000-%012x", r.u64()&0xffffffff, r.u64()&0xffffffffffff)
		md["resourceVersion"] = fmt.Sprint(1000 + r.intn(9000))
		md["creationTimestamp"] = "2024-05-01T10:00:00Z"
		md["generation"] = 1 + r.intn(4)
		if b, err := yaml.Marshal(m); err == nil {
			out[i].Text = string(b)
		}
	}
	return out
}

// renameNamespaces gives namespaces other names throughout a resource set (names that begin with a digit are valid
// and sort among the address ranges, not after them). Only whole words are replaced.
func renameNamespaces(docs []Doc, m map[string]string) []Doc {
	out := make([]Doc, len(docs))
	for i, d := range docs {
		out[i] = d
		out[i].Text = renameWords(d.Text, m)
		out[i].NS = renameWords(d.NS, m)
		if d.Kind == "Namespace" {
			out[i].Name = renameWords(d.Name, m)
		}
	}
	return out
}

func renameWords(s string, m map[string]string) string {
	isWord := func(b byte) bool {
		return b == '-' || b == '_' || b >= '0' && b <= '9' || b >= 'a' && b <= 'z' || b >= 'A' && b <= 'Z'
	}
	for _, from := range sortedKeys(m) {
		var sb strings.Builder
		for i := 0; i < len(s); {
			if strings.HasPrefix(s[i:], from) && (i == 0 || !isWord(s[i-1])) && (i+len(from) == len(s) || !isWord(s[i+len(from)])) {
				sb.WriteString(m[from])
				i += len(from)
				continue
			}
			sb.WriteByte(s[i])
			i++
		}
		s = sb.String()
	}
	return s
}

// respellSelector returns the same selector written differently: the expressions and the values of each in reverse order.
func respellSelector(s metav1.LabelSelector) metav1.LabelSelector {
	out := metav1.LabelSelector{}
	if s.MatchLabels != nil {
		out.MatchLabels = map[string]string{}
		for k, v := range s.MatchLabels {
			out.MatchLabels[k] = v
		}
	}
	for i := len(s.MatchExpressions) - 1; i >= 0; i-- {
		e := s.MatchExpressions[i]
		c := metav1.LabelSelectorRequirement{Key: e.Key, Operator: e.Operator}
		for j := len(e.Values) - 1; j >= 0; j-- {
			c.Values = append(c.Values, e.Values[j])
		}
		out.MatchExpressions = append(out.MatchExpressions, c)
	}
	return out
}

func respellPeers(r *rng, peers []netv1.NetworkPolicyPeer) []netv1.NetworkPolicyPeer {
	var out []netv1.NetworkPolicyPeer
	one := func(s *metav1.LabelSelector) *metav1.LabelSelector {
		if s == nil {
			return nil
		}
		c := respellSelector(*s)
		if len(c.MatchLabels) == 1 && r.chance(1, 2) {
			// key: value is the same as key In [value]
			for k, v := range c.MatchLabels {
				c.MatchExpressions = append(c.MatchExpressions, metav1.LabelSelectorRequirement{Key: k, Operator: metav1.LabelSelectorOpIn, Values: []string{v}})
			}
			c.MatchLabels = nil
		}
		return &c
	}
	for _, p := range peers {
		q := netv1.NetworkPolicyPeer{IPBlock: p.IPBlock, NamespaceSelector: one(p.NamespaceSelector), PodSelector: one(p.PodSelector)}
		out = append(out, q)
	}
	return out
}

// randNsSelector: a namespace selector; a quarter of them name a namespace through the automatic
// kubernetes.io/metadata.name label (an existing one or one nobody declared).
func randNsSelector(r *rng, f *Features, allowEmpty bool) metav1.LabelSelector {
	if r.chance(1, 4) {
		cands := append(append([]string{}, nsNames[:f.NNamespaces]...), "default", "elsewhere")
		if f.Iso {
			cands = append(cands, "iso", "iso")
		}
		ns := pick(r, cands)
		if r.chance(1, 3) {
			return metav1.LabelSelector{MatchExpressions: []metav1.LabelSelectorRequirement{{Key: "kubernetes.io/metadata.name", Operator: metav1.LabelSelectorOpIn, Values: []string{ns}}}}
		}
		return metav1.LabelSelector{MatchLabels: map[string]string{"kubernetes.io/metadata.name": ns}}
	}
	return randSelector(r, f, allowEmpty)
}

func randContainerPorts(r *rng) []corev1.ContainerPort {
	var res []corev1.ContainerPort
	used := map[string]bool{}
	n := r.between(0, 3)
	for i := 0; i < n; i++ {
		d := pick(r, portDecls)
		if d.name != "" && used[d.name] {
			continue
		}
		used[d.name] = true
		cp := corev1.ContainerPort{Name: d.name, ContainerPort: d.num}
		if d.proto != corev1.ProtocolTCP || r.chance(1, 2) {
			cp.Protocol = d.proto
		}
		res = append(res, cp)
	}
	return res
}

func podTemplate(labels map[string]string, ports []corev1.ContainerPort) corev1.PodTemplateSpec {
	return corev1.PodTemplateSpec{
		ObjectMeta: metav1.ObjectMeta{Labels: labels},
		Spec:       corev1.PodSpec{Containers: []corev1.Container{{Name: "c", Image: "img", Ports: ports}}},
	}
}

func i32(v int32) *int32 { return &v }
func bptr(v bool) *bool  { return &v }

type wl struct {
	ns, name, kind string
	labels         map[string]string
	ports          []corev1.ContainerPort
}

func workloadDoc(r *rng, w wl) Doc {
	tm := func(api, kind string) metav1.TypeMeta { return metav1.TypeMeta{APIVersion: api, Kind: kind} }
	om := metav1.ObjectMeta{Name: w.name, Namespace: w.ns}
	tpl := podTemplate(w.labels, w.ports)
	sel := &metav1.LabelSelector{MatchLabels: w.labels}
	var replicas *int32
	if r.chance(3, 4) {
		replicas = i32(int32(r.between(0, 3)))
	}
	switch w.kind {
	case "Deployment":
		return toDoc(w.kind, w.ns, w.name, &appsv1.Deployment{TypeMeta: tm("apps/v1", w.kind), ObjectMeta: om,
			Spec: appsv1.DeploymentSpec{Replicas: replicas, Selector: sel, Template: tpl}})
	case "ReplicaSet":
		return toDoc(w.kind, w.ns, w.name, &appsv1.ReplicaSet{TypeMeta: tm("apps/v1", w.kind), ObjectMeta: om,
			Spec: appsv1.ReplicaSetSpec{Replicas: replicas, Selector: sel, Template: tpl}})
	case "StatefulSet":
		return toDoc(w.kind, w.ns, w.name, &appsv1.StatefulSet{TypeMeta: tm("apps/v1", w.kind), ObjectMeta: om,
			Spec: appsv1.StatefulSetSpec{Replicas: replicas, Selector: sel, Template: tpl, ServiceName: "svc"}})
	case "DaemonSet":
		return toDoc(w.kind, w.ns, w.name, &appsv1.DaemonSet{TypeMeta: tm("apps/v1", w.kind), ObjectMeta: om,
			Spec: appsv1.DaemonSetSpec{Selector: sel, Template: tpl}})
	case "Job":
		return toDoc(w.kind, w.ns, w.name, &batchv1.Job{TypeMeta: tm("batch/v1", w.kind), ObjectMeta: om,
			Spec: batchv1.JobSpec{Parallelism: replicas, Template: tpl}})
	case "CronJob":
		return toDoc(w.kind, w.ns, w.name, &batchv1.CronJob{TypeMeta: tm("batch/v1", w.kind), ObjectMeta: om,
			Spec: batchv1.CronJobSpec{Schedule: "* * * * *", JobTemplate: batchv1.JobTemplateSpec{Spec: batchv1.JobSpec{Template: tpl}}}})
	case "ReplicationController":
		t := tpl
		return toDoc(w.kind, w.ns, w.name, &corev1.ReplicationController{TypeMeta: tm("v1", w.kind), ObjectMeta: om,
			Spec: corev1.ReplicationControllerSpec{Replicas: replicas, Selector: w.labels, Template: &t}})
	}
	panic("workloadDoc: " + w.kind)
}

// podDoc renders a bare Pod. owner=="" means no ownerReferences.
func podDoc(ns, name string, labels map[string]string, ports []corev1.ContainerPort, owner, ownerKind string, withStatus bool) Doc {
	p := &corev1.Pod{TypeMeta: metav1.TypeMeta{APIVersion: "v1", Kind: "Pod"},
		ObjectMeta: metav1.ObjectMeta{Name: name, Namespace: ns, Labels: labels},
		Spec:       corev1.PodSpec{Containers: []corev1.Container{{Name: "c", Image: "img", Ports: ports}}}}
	if owner != "" {
		api := "apps/v1"
		p.OwnerReferences = []metav1.OwnerReference{{APIVersion: api, Kind: ownerKind, Name: owner, UID: types.UID("u-" + owner), Controller: bptr(true)}}
	}
	if strings.HasSuffix(ownerKind, "+refs") && owner != "" {
		// further, non-controller references around the controller's (order in the list means nothing)
		kind := strings.TrimSuffix(ownerKind, "+refs")
		ctl := metav1.OwnerReference{APIVersion: "apps/v1", Kind: kind, Name: owner, UID: types.UID("u-" + owner), Controller: bptr(true)}
		p.OwnerReferences = []metav1.OwnerReference{
			{APIVersion: "v1", Kind: "ConfigMap", Name: "not-the-controller", UID: "u-cm"},
			{APIVersion: "batch/v1", Kind: "Job", Name: "helper", UID: "u-job", Controller: bptr(false)},
			ctl,
		}
	}
	if withStatus {
		p.Status.HostIP = "192.168.49.2"
		p.Status.PodIPs = []corev1.PodIP{{IP: "10.244.0.7"}}
		p.Status.PodIP = "10.244.0.7"
	}
	return toDoc("Pod", ns, name, p)
}

func randNPPorts(r *rng, f *Features, toIP bool) []netv1.NetworkPolicyPort {
	if (!f.Broad && r.chance(1, 3)) || (f.Broad && r.chance(1, 4)) {
		return nil
	}
	if f.Broad && r.chance(1, 4) {
		// shapes whose union is sensitive to canonical forms: every protocol spelled out in full, one or two
		// protocols in full, a lone named port (which may not resolve on the pod it meets)
		tcp, udp, sctp := corev1.ProtocolTCP, corev1.ProtocolUDP, corev1.ProtocolSCTP
		switch k := r.intn(4); {
		case k == 0:
			return []netv1.NetworkPolicyPort{{Protocol: &tcp}, {Protocol: &udp}, {Protocol: &sctp}}
		case k == 1:
			return []netv1.NetworkPolicyPort{{Protocol: &udp}, {Protocol: &sctp}}
		case k == 2 && f.NamedPorts && !toIP:
			v := intstr.FromString(pick(r, []string{"http", "metrics", "dns"}))
			pr := pick(r, protos)
			return []netv1.NetworkPolicyPort{{Protocol: &pr, Port: &v}}
		default:
			return []netv1.NetworkPolicyPort{{Protocol: &tcp}}
		}
	}
	var res []netv1.NetworkPolicyPort
	n := r.between(1, 2)
	for i := 0; i < n; i++ {
		pp := netv1.NetworkPolicyPort{}
		if r.chance(2, 3) {
			pr := pick(r, protos)
			if f.Broad && r.chance(2, 3) {
				pr = corev1.ProtocolTCP // overlapping port sets need a common protocol
			}
			pp.Protocol = &pr
		}
		switch k := r.intn(4); {
		case k == 0: // protocol only
		case k == 1 && f.NamedPorts && !toIP:
			v := intstr.FromString(pick(r, []string{"http", "metrics", "dns"}))
			pp.Port = &v
		case k == 2:
			lo := pick(r, portNums)
			v := intstr.FromInt32(lo)
			pp.Port = &v
			pp.EndPort = i32(lo + int32(r.between(0, 1000)))
		default:
			v := intstr.FromInt32(pick(r, portNums))
			pp.Port = &v
		}
		res = append(res, pp)
	}
	return res
}

func pickCIDR(r *rng, f *Features) struct {
	c  string
	ex []string
} {
	if f.HostAddrs && r.chance(1, 2) {
		return struct {
			c  string
			ex []string
		}{pick(r, hostCidrs), nil}
	}
	return pick(r, cidrs)
}

func randNPPeers(r *rng, f *Features) (peers []netv1.NetworkPolicyPeer, hasIP bool) {
	if f.OnlyIP {
		c := pickCIDR(r, f)
		return []netv1.NetworkPolicyPeer{{IPBlock: &netv1.IPBlock{CIDR: c.c}}}, true
	}
	if r.chance(1, 5) {
		return nil, false // no peers: everything
	}
	if f.Broad && r.chance(1, 2) {
		// the two classic whole-world rules: "the internet" and "every namespace"
		if r.chance(1, 3) {
			return []netv1.NetworkPolicyPeer{{IPBlock: &netv1.IPBlock{CIDR: "0.0.0.0/0"}}}, true
		}
		return []netv1.NetworkPolicyPeer{{NamespaceSelector: &metav1.LabelSelector{}}}, false
	}
	n := r.between(1, 3)
	for i := 0; i < n; i++ {
		p := netv1.NetworkPolicyPeer{}
		switch k := r.intn(4); {
		case k == 0 && f.IPBlocks:
			c := pickCIDR(r, f)
			p.IPBlock = &netv1.IPBlock{CIDR: c.c}
			for _, e := range c.ex {
				if r.chance(1, 2) {
					p.IPBlock.Except = append(p.IPBlock.Except, e)
				}
			}
			hasIP = true
		case k == 1:
			s := randNsSelector(r, f, true)
			p.NamespaceSelector = &s
		case k == 2:
			s1, s2 := randNsSelector(r, f, true), randSelector(r, f, true)
			p.NamespaceSelector, p.PodSelector = &s1, &s2
		default:
			s := randSelector(r, f, true)
			p.PodSelector = &s
		}
		peers = append(peers, p)
	}
	return peers, hasIP
}

func randNetpol(r *rng, f *Features, ns, name string) Doc {
	np := &netv1.NetworkPolicy{TypeMeta: metav1.TypeMeta{APIVersion: "networking.k8s.io/v1", Kind: "NetworkPolicy"},
		ObjectMeta: metav1.ObjectMeta{Name: name, Namespace: ns}}
	np.Spec.PodSelector = randSelector(r, f, true)
	ni, ne := r.between(0, 2), r.between(0, 2)
	for i := 0; i < ni; i++ {
		peers, _ := randNPPeers(r, f)
		np.Spec.Ingress = append(np.Spec.Ingress, netv1.NetworkPolicyIngressRule{From: peers, Ports: randNPPorts(r, f, false)})
	}
	for i := 0; i < ne; i++ {
		peers, hasIP := randNPPeers(r, f)
		np.Spec.Egress = append(np.Spec.Egress, netv1.NetworkPolicyEgressRule{To: peers, Ports: randNPPorts(r, f, hasIP || len(peers) == 0)})
	}
	if f.Exprs && r.chance(1, 4) {
		// a twin rule: the peers of an existing rule said again in another spelling, with ports of its own
		// (rules that were merged by hand from two sources; the analysis must treat both spellings as one peer)
		if len(np.Spec.Egress) > 0 && r.chance(1, 2) {
			src := pick(r, np.Spec.Egress)
			toIP := len(src.To) == 0 // a named port cannot be resolved for an address: such a rule is an error, not a spelling
			for _, p := range src.To {
				toIP = toIP || p.IPBlock != nil
			}
			np.Spec.Egress = append(np.Spec.Egress, netv1.NetworkPolicyEgressRule{To: respellPeers(r, src.To), Ports: randNPPorts(r, f, toIP)})
		} else if len(np.Spec.Ingress) > 0 {
			src := pick(r, np.Spec.Ingress)
			np.Spec.Ingress = append(np.Spec.Ingress, netv1.NetworkPolicyIngressRule{From: respellPeers(r, src.From), Ports: randNPPorts(r, f, false)})
		}
	}
	switch r.intn(4) {
	case 0: // defaulted
	case 1:
		np.Spec.PolicyTypes = []netv1.PolicyType{netv1.PolicyTypeIngress}
	case 2:
		np.Spec.PolicyTypes = []netv1.PolicyType{netv1.PolicyTypeEgress}
	default:
		np.Spec.PolicyTypes = []netv1.PolicyType{netv1.PolicyTypeIngress, netv1.PolicyTypeEgress}
	}
	return toDoc("NetworkPolicy", ns, name, np)
}

func randANPPorts(r *rng, f *Features) *[]apisv1a.AdminNetworkPolicyPort {
	if r.chance(1, 3) {
		return nil
	}
	var res []apisv1a.AdminNetworkPolicyPort
	n := r.between(1, 2)
	for i := 0; i < n; i++ {
		switch k := r.intn(3); {
		case k == 0 && f.NamedPorts:
			s := pick(r, []string{"http", "metrics", "dns"})
			res = append(res, apisv1a.AdminNetworkPolicyPort{NamedPort: &s})
		case k == 1:
			lo := pick(r, portNums)
			res = append(res, apisv1a.AdminNetworkPolicyPort{PortRange: &apisv1a.PortRange{Protocol: pick(r, protos), Start: lo, End: lo + int32(r.between(0, 1000))}})
		default:
			res = append(res, apisv1a.AdminNetworkPolicyPort{PortNumber: &apisv1a.Port{Protocol: pick(r, protos), Port: pick(r, portNums)}})
		}
	}
	return &res
}

func randSubject(r *rng, f *Features) apisv1a.AdminNetworkPolicySubject {
	if r.chance(1, 2) {
		s := randNsSelector(r, f, true)
		return apisv1a.AdminNetworkPolicySubject{Namespaces: &s}
	}
	return apisv1a.AdminNetworkPolicySubject{Pods: &apisv1a.NamespacedPod{NamespaceSelector: randNsSelector(r, f, true), PodSelector: randSelector(r, f, true)}}
}

func randANPIngressPeers(r *rng, f *Features) []apisv1a.AdminNetworkPolicyIngressPeer {
	var res []apisv1a.AdminNetworkPolicyIngressPeer
	for i, n := 0, r.between(1, 2); i < n; i++ {
		s := randSubject(r, f)
		res = append(res, apisv1a.AdminNetworkPolicyIngressPeer{Namespaces: s.Namespaces, Pods: s.Pods})
	}
	return res
}

func randANPEgressPeers(r *rng, f *Features) []apisv1a.AdminNetworkPolicyEgressPeer {
	var res []apisv1a.AdminNetworkPolicyEgressPeer
	for i, n := 0, r.between(1, 2); i < n; i++ {
		s := randSubject(r, f)
		res = append(res, apisv1a.AdminNetworkPolicyEgressPeer{Namespaces: s.Namespaces, Pods: s.Pods})
	}
	return res
}

var anpActions = []apisv1a.AdminNetworkPolicyRuleAction{apisv1a.AdminNetworkPolicyRuleActionAllow, apisv1a.AdminNetworkPolicyRuleActionDeny, apisv1a.AdminNetworkPolicyRuleActionPass}

func randANP(r *rng, f *Features, name string, prio int32) Doc {
	a := &apisv1a.AdminNetworkPolicy{TypeMeta: metav1.TypeMeta{APIVersion: "policy.networking.k8s.io/v1alpha1", Kind: "AdminNetworkPolicy"},
		ObjectMeta: metav1.ObjectMeta{Name: name}}
	a.Spec.Priority = prio
	a.Spec.Subject = randSubject(r, f)
	ni, ne := r.between(0, 2), r.between(0, 2)
	if ni+ne == 0 {
		ni = 1
	}
	for i := 0; i < ni; i++ {
		a.Spec.Ingress = append(a.Spec.Ingress, apisv1a.AdminNetworkPolicyIngressRule{Name: fmt.Sprintf("i%d", i), Action: pick(r, anpActions),
			From: randANPIngressPeers(r, f), Ports: randANPPorts(r, f)})
	}
	for i := 0; i < ne; i++ {
		a.Spec.Egress = append(a.Spec.Egress, apisv1a.AdminNetworkPolicyEgressRule{Name: fmt.Sprintf("e%d", i), Action: pick(r, anpActions),
			To: randANPEgressPeers(r, f), Ports: randANPPorts(r, f)})
	}
	return toDoc("AdminNetworkPolicy", "", name, a)
}

func randBANP(r *rng, f *Features, name string) Doc {
	b := &apisv1a.BaselineAdminNetworkPolicy{TypeMeta: metav1.TypeMeta{APIVersion: "policy.networking.k8s.io/v1alpha1", Kind: "BaselineAdminNetworkPolicy"},
		ObjectMeta: metav1.ObjectMeta{Name: name}}
	b.Spec.Subject = randSubject(r, f)
	acts := []apisv1a.BaselineAdminNetworkPolicyRuleAction{apisv1a.BaselineAdminNetworkPolicyRuleActionAllow, apisv1a.BaselineAdminNetworkPolicyRuleActionDeny}
	ni, ne := r.between(0, 2), r.between(0, 2)
	if ni+ne == 0 {
		ne = 1
	}
	for i := 0; i < ni; i++ {
		b.Spec.Ingress = append(b.Spec.Ingress, apisv1a.BaselineAdminNetworkPolicyIngressRule{Action: pick(r, acts), From: randANPIngressPeers(r, f), Ports: randANPPorts(r, f)})
	}
	for i := 0; i < ne; i++ {
		b.Spec.Egress = append(b.Spec.Egress, apisv1a.BaselineAdminNetworkPolicyEgressRule{Action: pick(r, acts), To: randANPEgressPeers(r, f), Ports: randANPPorts(r, f)})
	}
	return toDoc("BaselineAdminNetworkPolicy", "", name, b)
}

// svcSelector: the workload's labels, a subset of them, or (one Service in six) no selector at all.
func svcSelector(r *rng, labels map[string]string) map[string]string {
	switch r.intn(6) {
	case 0:
		return nil
	case 1:
		out := map[string]string{}
		for _, k := range sortedKeys(labels) {
			out[k] = labels[k]
			break
		}
		return out
	}
	return labels
}

func nsDoc(name string, labels map[string]string) Doc {
	return toDoc("Namespace", "", name, &corev1.Namespace{TypeMeta: metav1.TypeMeta{APIVersion: "v1", Kind: "Namespace"},
		ObjectMeta: metav1.ObjectMeta{Name: name, Labels: labels}})
}

// genWorld draws a valid resource set: unique (kind, namespace, name), workload names
// unique per namespace across kinds, bare pod and owner names disjoint from workload
// names and from synthetic "<workload>-<n>" pod names, pods of one owner identical in
// labels and ports, ANPs with distinct in-range priorities, at most one BANP named
// default. Anything outside those rules is a fault that a scenario injects on purpose.
func genWorld(r *rng, f Features) *World {
	w := &World{HasNsObj: map[string]bool{}}
	if f.Exprs {
		f.pool = &[]metav1.LabelSelector{}
	}
	nss := append([]string{}, nsNames[:f.NNamespaces]...)
	if f.DefaultNS {
		nss[len(nss)-1] = "default"
	}
	w.NSs = nss
	for _, ns := range nss {
		if f.AllNsObjs || r.intn(4) < f.NsObjProb {
			w.Docs = append(w.Docs, nsDoc(ns, randLabels(r, 0)))
			w.HasNsObj[ns] = true
		}
	}
	type svcTarget struct {
		ns     string
		labels map[string]string
		ports  []corev1.ContainerPort
	}
	var targets []svcTarget
	for i := 0; i < f.NWorkloads; i++ {
		ns := pick(r, nss)
		kind := pick(r, f.Kinds)
		if f.PodsOnly {
			kind = "Pod"
		}
		labels := randLabels(r, 1)
		if f.Broad {
			labels = randLabelsF(r, &f, 1)
		}
		ports := randContainerPorts(r)
		targets = append(targets, svcTarget{ns, labels, ports})
		if kind == "Pod" {
			status := r.chance(1, 2)
			switch {
			case f.SharedOwner && r.chance(1, 2):
				owner := fmt.Sprintf("own%d", i)
				okind := pick(r, []string{"ReplicaSet", "StatefulSet", "DaemonSet", "ReplicaSet+refs"})
				for k, n := 0, r.between(2, 3); k < n; k++ {
					name := fmt.Sprintf("bp%d-%c", i, 'x'+k)
					pp := ports
					if f.PortDrift && k > 0 {
						pp = randContainerPorts(r)
					}
					w.Docs = append(w.Docs, podDoc(ns, name, labels, pp, owner, okind, status))
					w.Pods = append(w.Pods, ns+"/"+name)
				}
				w.Workloads = append(w.Workloads, ns+"/"+owner)
			case r.chance(1, 2):
				name := fmt.Sprintf("bp%d", i)
				w.Docs = append(w.Docs, podDoc(ns, name, labels, ports, fmt.Sprintf("own%d", i), "ReplicaSet", status))
				w.Pods = append(w.Pods, ns+"/"+name)
				w.Workloads = append(w.Workloads, fmt.Sprintf("%s/own%d", ns, i))
			default:
				name := fmt.Sprintf("bp%d", i)
				w.Docs = append(w.Docs, podDoc(ns, name, labels, ports, "", "", status))
				w.Pods = append(w.Pods, ns+"/"+name)
				w.Workloads = append(w.Workloads, ns+"/"+name)
			}
			continue
		}
		name := fmt.Sprintf("w%d", i)
		w.Docs = append(w.Docs, workloadDoc(r, wl{ns, name, kind, labels, ports}))
		w.Workloads = append(w.Workloads, ns+"/"+name)
	}
	for i := 0; i < f.NNetpols; i++ {
		w.Docs = append(w.Docs, randNetpol(r, &f, pick(r, nss), fmt.Sprintf("np%d", i)))
	}
	if f.NANPs > 0 {
		w.HasAdmin = true
		prios := r.perm(40)
		for i := 0; i < f.NANPs; i++ {
			w.Docs = append(w.Docs, randANP(r, &f, fmt.Sprintf("anp%d", i), int32(prios[i])))
		}
	}
	if f.BANP {
		w.HasAdmin = true
		w.Docs = append(w.Docs, randBANP(r, &f, "default"))
	}
	if f.Ingress && r.chance(1, 3) {
		// the analyzer models the ingress controller as a pod of namespace "ingress-controller-ns": policies
		// (and sometimes a workload) may really live in a namespace of that name
		w.Docs = append(w.Docs, randNetpol(r, &f, "ingress-controller-ns", "npic"))
		if r.chance(1, 3) {
			w.Docs = append(w.Docs, workloadDoc(r, wl{"ingress-controller-ns", "wic", "Deployment", randLabels(r, 1), randContainerPorts(r)}))
			w.Workloads = append(w.Workloads, "ingress-controller-ns/wic")
		}
	}
	if f.Ingress && len(targets) > 0 {
		// a third of the worlds with ingress resources are ingress-heavy: a workload with several ports behind one
		// service that exposes all of them, and several Ingress objects that pick their port by name
		heavy := r.chance(1, 3) || f.IngressHeavy
		for i, n := 0, r.between(1, 2); i < n; i++ {
			t := pick(r, targets)
			if heavy {
				for _, c := range targets {
					if len(c.ports) > len(t.ports) {
						t = c
					}
				}
			}
			svc := fmt.Sprintf("svc%d", i)
			svcSel := svcSelector(r, t.labels)
			if heavy && (f.IngressHeavy || r.chance(1, 2)) {
				// one label only: the service stands in front of every workload that carries it (blue and green), and these
				// need not agree on what number a port name stands for
				for _, k := range sortedKeys(t.labels) {
					svcSel = map[string]string{k: t.labels[k]}
					break
				}
			}
			// a service with up to three ports, each aimed at one of the target's container ports by number or by name
			var sps []corev1.ServicePort
			for k := 0; k < 3 && (k == 0 || (k < len(t.ports) && (heavy || r.chance(1, 2)))); k++ {
				sp := corev1.ServicePort{Name: fmt.Sprintf("p%d", k), Port: int32(80 + k), Protocol: corev1.ProtocolTCP}
				if k < len(t.ports) {
					cp := t.ports[k]
					if cp.Name != "" && (heavy || r.chance(1, 2)) {
						sp.TargetPort = intstr.FromString(cp.Name)
					} else {
						sp.TargetPort = intstr.FromInt32(cp.ContainerPort)
					}
					if cp.Protocol != "" {
						sp.Protocol = cp.Protocol
					}
				}
				sps = append(sps, sp)
			}
			w.Docs = append(w.Docs, toDoc("Service", t.ns, svc, &corev1.Service{TypeMeta: metav1.TypeMeta{APIVersion: "v1", Kind: "Service"},
				ObjectMeta: metav1.ObjectMeta{Name: svc, Namespace: t.ns}, Spec: corev1.ServiceSpec{Selector: svcSel, Ports: sps}}))
			backend := func() netv1.IngressBackend {
				sp := pick(r, sps)
				be := netv1.IngressBackend{Service: &netv1.IngressServiceBackend{Name: svc, Port: netv1.ServiceBackendPort{Number: sp.Port}}}
				if heavy || r.chance(1, 2) {
					be.Service.Port = netv1.ServiceBackendPort{Name: sp.Name}
				}
				return be
			}
			// one to three front doors to the same service: several Ingress objects and Routes may lead to it,
			// each through a port of its own choice
			nq := r.between(1, 3)
			if heavy {
				nq = r.between(2, 4)
			}
			for q := 0; q < nq; q++ {
				if heavy || r.chance(2, 3) {
					pt := netv1.PathTypePrefix
					var paths []netv1.HTTPIngressPath
					for x, nx := 0, r.between(1, 2); x < nx; x++ {
						paths = append(paths, netv1.HTTPIngressPath{Path: fmt.Sprintf("/%d", x), PathType: &pt, Backend: backend()})
					}
					ing := &netv1.Ingress{TypeMeta: metav1.TypeMeta{APIVersion: "networking.k8s.io/v1", Kind: "Ingress"},
						ObjectMeta: metav1.ObjectMeta{Name: fmt.Sprintf("ing%d-%d", i, q), Namespace: t.ns},
						Spec:       netv1.IngressSpec{Rules: []netv1.IngressRule{{Host: "h.example", IngressRuleValue: netv1.IngressRuleValue{HTTP: &netv1.HTTPIngressRuleValue{Paths: paths}}}}}}
					if r.chance(1, 3) {
						be := backend()
						ing.Spec.DefaultBackend = &be
					}
					w.Docs = append(w.Docs, toDoc("Ingress", t.ns, ing.Name, ing))
				} else {
					rt := &routev1.Route{TypeMeta: metav1.TypeMeta{APIVersion: "route.openshift.io/v1", Kind: "Route"},
						ObjectMeta: metav1.ObjectMeta{Name: fmt.Sprintf("rt%d-%d", i, q), Namespace: t.ns},
						Spec:       routev1.RouteSpec{Host: "h.example", To: routev1.RouteTargetReference{Kind: "Service", Name: svc}}}
					if r.chance(1, 2) {
						sp := pick(r, sps)
						rt.Spec.Port = &routev1.RoutePort{TargetPort: intstr.FromString(sp.Name)}
						if r.chance(1, 3) {
							rt.Spec.Port = &routev1.RoutePort{TargetPort: sp.TargetPort}
						}
					}
					// the rest of what a Route may say: the weight of its backend (written or left to the server's default),
					// a traffic split over further backends (the same service again, the previous one, a service that is
					// not there, a backend of another kind; weights written, zero or absent), TLS, a wildcard policy
					wt := func() *int32 {
						switch r.intn(4) {
						case 0:
							return nil
						case 1:
							z := int32(0)
							return &z
						}
						v := int32(r.between(1, 256))
						return &v
					}
					if r.chance(1, 2) {
						rt.Spec.To.Weight = wt()
					}
					if r.chance(1, 3) {
						for x, nx := 0, r.between(1, 3); x < nx; x++ {
							alt := routev1.RouteTargetReference{Kind: "Service", Name: pick(r, []string{svc, fmt.Sprintf("svc%d", (i+1)%2), "svc-not-there"}), Weight: wt()}
							if r.chance(1, 6) {
								alt.Kind = pick(r, []string{"", "Deployment"})
							}
							rt.Spec.AlternateBackends = append(rt.Spec.AlternateBackends, alt)
						}
					}
					if r.chance(1, 4) {
						rt.Spec.TLS = &routev1.TLSConfig{Termination: pick(r, []routev1.TLSTerminationType{routev1.TLSTerminationEdge, routev1.TLSTerminationPassthrough, routev1.TLSTerminationReencrypt})}
					}
					if r.chance(1, 6) {
						rt.Spec.WildcardPolicy = routev1.WildcardPolicySubdomain
						rt.Spec.Host = "w.h.example"
					}
					w.Docs = append(w.Docs, toDoc("Route", t.ns, rt.Name, rt))
				}
			}
		}
	}
	if f.Iso && !f.PodsOnly {
		// a namespace that shows up in no connection line, only in exposure lines
		if r.chance(1, 2) {
			w.Docs = append(w.Docs, nsDoc("iso", randLabels(r, 0)))
			w.HasNsObj["iso"] = true
		}
		w.Docs = append(w.Docs, workloadDoc(r, wl{"iso", "wiso", pick(r, []string{"Deployment", "StatefulSet", "DaemonSet"}), map[string]string{"app": "iso"}, randContainerPorts(r)}))
		w.Workloads = append(w.Workloads, "iso/wiso")
		ghost := metav1.LabelSelector{MatchLabels: map[string]string{"app": "ghost"}}
		np := &netv1.NetworkPolicy{TypeMeta: metav1.TypeMeta{APIVersion: "networking.k8s.io/v1", Kind: "NetworkPolicy"}, ObjectMeta: metav1.ObjectMeta{Name: "npiso", Namespace: "iso"},
			Spec: netv1.NetworkPolicySpec{PolicyTypes: []netv1.PolicyType{netv1.PolicyTypeIngress, netv1.PolicyTypeEgress},
				Ingress: []netv1.NetworkPolicyIngressRule{{From: []netv1.NetworkPolicyPeer{{PodSelector: &ghost}}, Ports: randNPPorts(r, &f, false)}},
				Egress:  []netv1.NetworkPolicyEgressRule{{To: []netv1.NetworkPolicyPeer{{PodSelector: &ghost}}}}}}
		w.Docs = append(w.Docs, toDoc("NetworkPolicy", "iso", "npiso", np))
		if r.chance(1, 2) {
			// somebody outside talks to hypothetical pods of that namespace, named through its automatic label
			isoNS := metav1.LabelSelector{MatchLabels: map[string]string{"kubernetes.io/metadata.name": "iso"}}
			who := metav1.LabelSelector{MatchLabels: map[string]string{"app": pick(r, []string{"ghost", "x"})}}
			from := pick(r, nss)
			np2 := &netv1.NetworkPolicy{TypeMeta: metav1.TypeMeta{APIVersion: "networking.k8s.io/v1", Kind: "NetworkPolicy"}, ObjectMeta: metav1.ObjectMeta{Name: "nptoiso", Namespace: from},
				Spec: netv1.NetworkPolicySpec{PolicyTypes: []netv1.PolicyType{netv1.PolicyTypeEgress},
					Egress: []netv1.NetworkPolicyEgressRule{{To: []netv1.NetworkPolicyPeer{{NamespaceSelector: &isoNS, PodSelector: &who}}, Ports: randNPPorts(r, &f, false)}}}}
			w.Docs = append(w.Docs, toDoc("NetworkPolicy", from, "nptoiso", np2))
		}
	}
	if f.DefaultNS {
		for i, d := range w.Docs {
			if d.NS == "default" && r.chance(1, 2) {
				w.Docs[i].Text = strings.Replace(d.Text, "\n  namespace: default\n", "\n", 1)
			}
		}
	}
	return w
}

func docsKinds(docs []Doc) string {
	m := map[string]int{}
	for _, d := range docs {
		m[d.Kind]++
	}
	ks := make([]string, 0, len(m))
	for k := range m {
		ks = append(ks, k)
	}
	sort.Strings(ks)
	var sb strings.Builder
	for _, k := range ks {
		fmt.Fprintf(&sb, "%s:%d ", k, m[k])
	}
	return strings.TrimSpace(sb.String())
}
