// Package job defines the wire format between simctl (the simulator: all choices, all
// oracles) and simnode (one simulated execution of real netpol-analyzer code).
package job

import "encoding/json"

// Job is one simulated execution: a map-order schedule plus a fixed sequence of steps.
type Job struct {
	ID        string `json:"id"`
	MapSeed   uint64 `json:"mapSeed"`
	CacheSize int    `json:"cacheSize,omitempty"` // history jobs; 0 = library default
	Steps     []Step `json:"steps"`
	KeepOut   bool   `json:"keepOut,omitempty"` // include full output strings in the trace
	GC        bool   `json:"gc,omitempty"`      // crash hunting only: the collector may run (order is not compared)
}

// Step kinds.
const (
	List  = "list"  // connlist over a directory
	Diff  = "diff"  // connectivity diff of two directories
	Op    = "op"    // history: mutate the live engine
	Query = "query" // history: CheckIfAllowed on the live engine, on fresh engines too
	// EvalAll loads a directory the way the eval command does (scan, parse, filter by the two pods,
	// InsertObject in document order) and asks every query of the step on its own engine.
	EvalAll = "evalall"
)

type Step struct {
	Kind string `json:"kind"`

	// list
	Dir      string `json:"dir,omitempty"`
	API      string `json:"api,omitempty"` // "dir" (default) | "infos"
	Fmt      string `json:"fmt,omitempty"`
	Exposure bool   `json:"exposure,omitempty"`
	Focus    string `json:"focus,omitempty"`
	Stop     bool   `json:"stop,omitempty"`
	Loud     bool   `json:"loud,omitempty"` // default logger, errors and warnings not muted (what the CLI does)
	Warm     string `json:"warm,omitempty"` // the analyzer object has been used before: it first analyses this directory

	// diff
	Dir1 string `json:"dir1,omitempty"`
	Dir2 string `json:"dir2,omitempty"`

	// op: insert | delete | deleteCopy | setResources | clear
	Op   string `json:"op,omitempty"`
	Objs []Obj  `json:"objs,omitempty"`

	// evalall: each entry is src, dst, protocol, port ("ns/name" or an IP address)
	Queries [][4]string `json:"queries,omitempty"`

	// query
	Src   string `json:"src,omitempty"`
	Dst   string `json:"dst,omitempty"`
	Proto string `json:"proto,omitempty"`
	Port  string `json:"port,omitempty"`
}

// Obj is a typed Kubernetes object in JSON form.
type Obj struct {
	Kind string          `json:"kind"`
	JSON json.RawMessage `json:"json"`
}

type ErrEntry struct {
	Severe   bool   `json:"severe"`
	Fatal    bool   `json:"fatal"`
	Location string `json:"location,omitempty"`
	Text     string `json:"text"`
}

type Panic struct {
	Value  string   `json:"value"`
	Frames []string `json:"frames"` // "func file:line", innermost first
}

type Event struct {
	Step   int    `json:"step"`
	OK     bool   `json:"ok"` // the API call returned a nil error
	Err    string `json:"err,omitempty"`
	Out    string `json:"out,omitempty"`
	OutSha string `json:"outSha,omitempty"`
	HasOut bool   `json:"hasOut,omitempty"` // a result string was produced

	Conns   []string   `json:"conns,omitempty"`   // canonical, sorted "src|dst|conn"
	NConns  int        `json:"nConns"`            // number of returned entries (before canonicalisation)
	Peers   []string   `json:"peers,omitempty"`   // sorted peer strings
	PeerSha string     `json:"peerSha,omitempty"` // hash of the peers in returned order (reach probe)
	Exposed []string   `json:"exposed,omitempty"` // canonical exposure entries
	Errors  []ErrEntry `json:"errors,omitempty"`

	// diff
	DiffEmpty bool     `json:"diffEmpty,omitempty"`
	DiffRows  []string `json:"diffRows,omitempty"`

	// history
	Allowed   *bool  `json:"allowed,omitempty"`
	QErr      string `json:"qerr,omitempty"`
	Fresh     *bool  `json:"fresh,omitempty"`    // fresh engine, canonical fill order
	FreshErr  string `json:"freshErr,omitempty"` //
	FreshR    *bool  `json:"freshR,omitempty"`   // fresh engine, reverse fill order
	FreshRErr string `json:"freshRErr,omitempty"`
	OpErr     string `json:"opErr,omitempty"`
	CacheHits int    `json:"cacheHits,omitempty"`
	CacheKeys int    `json:"cacheKeys,omitempty"`

	QueryAt int      `json:"queryAt,omitempty"` // evalall: index of the query that panicked
	Answers []string `json:"answers,omitempty"` // evalall: "true" | "false" | "error"

	Draws uint64 `json:"draws"`
	Panic *Panic `json:"panic,omitempty"`
}

type Trace struct {
	ID         string  `json:"id"`
	GoVersion  string  `json:"goVersion"`
	Events     []Event `json:"events"`
	Goroutines int     `json:"goroutines"`
	NumGC      uint32  `json:"numGC"`
	Fail       string  `json:"fail,omitempty"`   // node-level trouble (bad job etc.), never a verdict
	Stacks     string  `json:"stacks,omitempty"` // all goroutine stacks when more than one goroutine was alive at the end
}
