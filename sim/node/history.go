package main

import (
	"encoding/json"
	"fmt"
	"sort"

	corev1 "k8s.io/api/core/v1"
	netv1 "k8s.io/api/networking/v1"
	"k8s.io/apimachinery/pkg/runtime"
	apisv1a "sigs.k8s.io/network-policy-api/apis/v1alpha1"

	"github.com/np-guard/netpol-analyzer/pkg/netpol/eval"

	"verifsim/job"
)

// history drives one live PolicyEngine and keeps the reference model: a dictionary of
// the objects currently present. The model has no policy semantics in it.
type history struct {
	cacheSize int
	live      *eval.PolicyEngine
	model     map[string]job.Obj        // key -> current object
	ptrs      map[string]runtime.Object // key -> the pointer the live engine was given
	aborted   bool
}

func newHistory(cacheSize int) *history {
	return &history{cacheSize: cacheSize, model: map[string]job.Obj{}, ptrs: map[string]runtime.Object{}}
}

func (h *history) engine() *eval.PolicyEngine {
	if h.live == nil {
		if h.cacheSize > 0 {
			h.live = eval.NewPolicyEngineWithCacheSizeForVerif(h.cacheSize)
		} else {
			h.live = eval.NewPolicyEngine()
		}
	}
	return h.live
}

var kindRank = map[string]int{"Namespace": 0, "Pod": 1, "NetworkPolicy": 2, "AdminNetworkPolicy": 3, "BaselineAdminNetworkPolicy": 4}

func decode(o job.Obj) (obj runtime.Object, key string, prio int32, err error) {
	switch o.Kind {
	case "Namespace":
		x := &corev1.Namespace{}
		err = json.Unmarshal(o.JSON, x)
		return x, "Namespace//" + x.Name, 0, err
	case "Pod":
		x := &corev1.Pod{}
		err = json.Unmarshal(o.JSON, x)
		return x, "Pod/" + x.Namespace + "/" + x.Name, 0, err
	case "NetworkPolicy":
		x := &netv1.NetworkPolicy{}
		err = json.Unmarshal(o.JSON, x)
		ns := x.Namespace
		if ns == "" {
			ns = "default"
		}
		return x, "NetworkPolicy/" + ns + "/" + x.Name, 0, err
	case "AdminNetworkPolicy":
		x := &apisv1a.AdminNetworkPolicy{}
		err = json.Unmarshal(o.JSON, x)
		return x, "AdminNetworkPolicy//" + x.Name, x.Spec.Priority, err
	case "BaselineAdminNetworkPolicy":
		x := &apisv1a.BaselineAdminNetworkPolicy{}
		err = json.Unmarshal(o.JSON, x)
		// the engine holds at most one BANP whatever its name: one model slot
		return x, "BaselineAdminNetworkPolicy//", 0, err
	}
	return nil, "", 0, fmt.Errorf("unsupported kind %q", o.Kind)
}

func mustDecode(o job.Obj) (runtime.Object, string, int32) {
	obj, key, prio, err := decode(o)
	if err != nil {
		panic("simnode: bad object in job: " + err.Error())
	}
	return obj, key, prio
}

func banpName(o job.Obj) string {
	x := &apisv1a.BaselineAdminNetworkPolicy{}
	_ = json.Unmarshal(o.JSON, x)
	return x.Name
}

func (h *history) op(st *job.Step, ev *job.Event) {
	pe := h.engine()
	switch st.Op {
	case "insert", "insertInPlace":
		obj, key, _ := mustDecode(st.Objs[0])
		if st.Op == "insertInPlace" {
			// the caller keeps the object it inserted earlier, changes it in place (the label map is the same map)
			// and hands the same pointer in again
			switch nw := obj.(type) {
			case *corev1.Namespace:
				if old, ok := h.ptrs[key].(*corev1.Namespace); ok && old.Labels != nil {
					for k := range old.Labels {
						delete(old.Labels, k)
					}
					for k, v := range nw.Labels {
						old.Labels[k] = v
					}
					obj = old
				}
			case *corev1.Pod:
				if old, ok := h.ptrs[key].(*corev1.Pod); ok && old.Labels != nil {
					for k := range old.Labels {
						delete(old.Labels, k)
					}
					for k, v := range nw.Labels {
						old.Labels[k] = v
					}
					old.OwnerReferences, old.Spec, old.Status = nw.OwnerReferences, nw.Spec, nw.Status
					obj = old
				}
			}
		}
		if err := pe.InsertObject(obj); err != nil {
			ev.OpErr = err.Error()
			return
		}
		h.model[key] = st.Objs[0]
		h.ptrs[key] = obj
		ev.OK = true
	case "delete", "deleteCopy":
		obj, key, _ := mustDecode(st.Objs[0])
		arg := obj
		cur, present := h.model[key]
		if present && st.Objs[0].Kind == "BaselineAdminNetworkPolicy" && banpName(cur) != banpName(st.Objs[0]) {
			present = false // deleting a BANP of another name: not the stored object
		}
		if st.Op == "delete" && present {
			arg = h.ptrs[key]
		}
		if err := pe.DeleteObject(arg); err != nil {
			ev.OpErr = err.Error()
			return
		}
		if present {
			delete(h.model, key)
			delete(h.ptrs, key)
		}
		ev.OK = true
	case "setResources":
		var nps []*netv1.NetworkPolicy
		var pods []*corev1.Pod
		var nss []*corev1.Namespace
		type kv struct {
			key string
			o   job.Obj
			p   runtime.Object
		}
		var applied []kv
		for _, o := range st.Objs {
			obj, key, _ := mustDecode(o)
			switch x := obj.(type) {
			case *netv1.NetworkPolicy:
				nps = append(nps, x)
			case *corev1.Pod:
				pods = append(pods, x)
			case *corev1.Namespace:
				nss = append(nss, x)
			default:
				panic("simnode: setResources takes namespaces, pods and network policies")
			}
			applied = append(applied, kv{key, o, obj})
		}
		// SetResources is documented as InsertObject over namespaces, then policies, then pods. The model
		// applies the same order and stops at the first element an InsertObject would reject for a reason
		// the model can see (a policy name that is already present, a pod that was never scheduled).
		var order []kv
		for _, k := range []string{"Namespace", "NetworkPolicy", "Pod"} {
			for _, a := range applied {
				if a.o.Kind == k {
					order = append(order, a)
				}
			}
		}
		firstBad := -1
		seen := map[string]bool{}
		for i, a := range order {
			_, dup := h.model[a.key]
			if a.o.Kind == "NetworkPolicy" && (dup || seen[a.key]) {
				firstBad = i
				break
			}
			if p, ok := a.p.(*corev1.Pod); ok && (p.Status.HostIP == "" || len(p.Status.PodIPs) == 0) {
				firstBad = i
				break
			}
			seen[a.key] = true
		}
		err := pe.SetResources(nps, pods, nss)
		if (err != nil) != (firstBad >= 0) {
			// the batch failed (or succeeded) for a reason the model does not know: state unknown, stop
			if err != nil {
				ev.OpErr = err.Error()
			}
			h.aborted = true
			return
		}
		if firstBad >= 0 {
			ev.OpErr = err.Error()
			order = order[:firstBad]
		}
		for _, a := range order {
			h.model[a.key] = a.o
			h.ptrs[a.key] = a.p
		}
		ev.OK = firstBad < 0
	case "clear":
		pe.ClearResources()
		h.model = map[string]job.Obj{}
		h.ptrs = map[string]runtime.Object{}
		ev.OK = true
	default:
		panic("simnode: unknown op " + st.Op)
	}
	ev.CacheHits, ev.CacheKeys = pe.VerifCacheStats()
}

// fresh builds a new engine from the model's current objects (canonical order:
// namespaces, pods, network policies, ANPs by ascending priority, BANP; or exactly
// the reverse) and asks it the question.
func (h *history) fresh(reverse bool, st *job.Step) (res *bool, errStr string) {
	type item struct {
		rank int
		prio int32
		key  string
		obj  runtime.Object
	}
	items := make([]item, 0, len(h.model))
	for _, o := range h.model {
		obj, key, prio := mustDecode(o)
		items = append(items, item{kindRank[o.Kind], prio, key, obj})
	}
	sort.Slice(items, func(i, j int) bool {
		a, b := items[i], items[j]
		if a.rank != b.rank {
			return a.rank < b.rank
		}
		if a.prio != b.prio {
			return a.prio < b.prio
		}
		return a.key < b.key
	})
	if reverse {
		for i, j := 0, len(items)-1; i < j; i, j = i+1, j-1 {
			items[i], items[j] = items[j], items[i]
		}
	}
	pe := eval.NewPolicyEngine()
	for _, it := range items {
		if err := pe.InsertObject(it.obj); err != nil {
			return nil, "fresh insert " + it.key + ": " + err.Error()
		}
	}
	r, err := pe.CheckIfAllowed(st.Src, st.Dst, st.Proto, st.Port)
	if err != nil {
		return nil, "query: " + err.Error()
	}
	return &r, ""
}

func (h *history) query(st *job.Step, ev *job.Event) {
	pe := h.engine()
	r, err := pe.CheckIfAllowed(st.Src, st.Dst, st.Proto, st.Port)
	if err != nil {
		ev.QErr = err.Error()
	} else {
		ev.Allowed = &r
		ev.OK = true
	}
	ev.CacheHits, ev.CacheKeys = pe.VerifCacheStats()
	ev.Fresh, ev.FreshErr = h.fresh(false, st)
	ev.FreshR, ev.FreshRErr = h.fresh(true, st)
}
