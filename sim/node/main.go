// simnode: one simulated execution of real netpol-analyzer code.
//
//	simnode run        job JSON on stdin, trace JSON on fd 3
//	simnode cli ARGS   the real CLI entry point (cli.Execute) inside this binary
//
// The node makes no choices: the map-order schedule, the inputs and the sequence of API
// calls all come from the job. It must be launched with GOMAXPROCS=1 GOGC=off
// GODEBUG=asyncpreemptoff=1 so that the heap layout (and with it the order of
// pointer-keyed maps) is a function of the job alone.
package main

import (
	"crypto/sha256"
	"encoding/hex"
	"encoding/json"
	"fmt"
	"io"
	"os"
	"runtime"
	"runtime/debug"
	"sort"
	"strings"
	_ "unsafe"

	"github.com/np-guard/netpol-analyzer/pkg/cli"
	"github.com/np-guard/netpol-analyzer/pkg/logger"
	"github.com/np-guard/netpol-analyzer/pkg/manifests/fsscanner"
	"github.com/np-guard/netpol-analyzer/pkg/manifests/parser"
	"github.com/np-guard/netpol-analyzer/pkg/netpol/connlist"
	"github.com/np-guard/netpol-analyzer/pkg/netpol/diff"
	"github.com/np-guard/netpol-analyzer/pkg/netpol/eval"

	corev1 "k8s.io/api/core/v1"
	metav1 "k8s.io/apimachinery/pkg/apis/meta/v1"
	"k8s.io/apimachinery/pkg/types"

	"verifsim/job"
)

//go:linkname verifMapSeed runtime.verifMapSeed
func verifMapSeed(seed uint64, on bool)

//go:linkname verifMapDrawCount runtime.verifMapDrawCount
func verifMapDrawCount() uint64

func main() {
	if len(os.Args) >= 2 && os.Args[1] == "cli" {
		os.Args = append([]string{"k8snetpolicy"}, os.Args[2:]...)
		cli.Execute()
		return
	}
	if len(os.Args) != 2 || os.Args[1] != "run" {
		fmt.Fprintln(os.Stderr, "usage: simnode run|cli")
		os.Exit(3)
	}
	out := os.NewFile(3, "trace")
	tr := job.Trace{GoVersion: runtime.Version()}
	emit := func() {
		b, _ := json.Marshal(&tr)
		if _, err := out.Write(b); err != nil {
			fmt.Fprintln(os.Stderr, "simnode: cannot write trace:", err)
			os.Exit(3)
		}
	}
	gcOff := debug.SetGCPercent(-1) == -1
	in, err := io.ReadAll(os.Stdin)
	if err != nil {
		tr.Fail = "read job: " + err.Error()
		emit()
		os.Exit(3)
	}
	var j job.Job
	if err := json.Unmarshal(in, &j); err != nil {
		tr.Fail = "decode job: " + err.Error()
		emit()
		os.Exit(3)
	}
	tr.ID = j.ID
	in = nil
	if runtime.GOMAXPROCS(0) != 1 || (!gcOff && !j.GC) {
		tr.Fail = "simnode must run with GOMAXPROCS=1 GOGC=off"
		emit()
		os.Exit(3)
	}
	if j.GC {
		debug.SetGCPercent(100)
	}

	verifMapSeed(j.MapSeed, true)
	h := newHistory(j.CacheSize)
	for i := range j.Steps {
		ev := runStep(&j, i, h)
		ev.Step = i
		ev.Draws = verifMapDrawCount()
		tr.Events = append(tr.Events, ev)
		if h.aborted {
			break
		}
	}
	verifMapSeed(0, false)
	var ms runtime.MemStats
	runtime.ReadMemStats(&ms)
	tr.NumGC = ms.NumGC
	tr.Goroutines = runtime.NumGoroutine()
	if tr.Goroutines > 1 {
		buf := make([]byte, 1<<16)
		tr.Stacks = string(buf[:runtime.Stack(buf, true)])
	}
	emit()
}

func runStep(j *job.Job, i int, h *history) (ev job.Event) {
	defer func() {
		if r := recover(); r != nil {
			ev.OK = false
			ev.Panic = &job.Panic{Value: fmt.Sprint(r), Frames: frames()}
		}
	}()
	st := &j.Steps[i]
	switch st.Kind {
	case job.List:
		stepList(st, &ev, j.KeepOut)
	case job.Diff:
		stepDiff(st, &ev, j.KeepOut)
	case job.Op:
		h.op(st, &ev)
	case job.Query:
		h.query(st, &ev)
	case job.EvalAll:
		stepEvalAll(st, &ev)
	default:
		panic("simnode: unknown step kind " + st.Kind)
	}
	return ev
}

// frames returns the stack of the panicking goroutine, innermost first, without the
// runtime's own panic machinery and without this harness.
func frames() []string {
	pc := make([]uintptr, 64)
	n := runtime.Callers(3, pc)
	fr := runtime.CallersFrames(pc[:n])
	var res []string
	for {
		f, more := fr.Next()
		if f.Function != "" && !strings.HasPrefix(f.Function, "runtime.") && !strings.HasPrefix(f.Function, "main.") {
			file := f.File
			if k := strings.Index(file, "/pkg/mod/"); k >= 0 {
				file = file[k+len("/pkg/mod/"):]
			}
			res = append(res, fmt.Sprintf("%s %s:%d", f.Function, file, f.Line))
		}
		if !more || len(res) >= 24 {
			break
		}
	}
	return res
}

func sha(s string) string {
	x := sha256.Sum256([]byte(s))
	return hex.EncodeToString(x[:8])
}

func quietLogger() *logger.DefaultLogger {
	return logger.NewDefaultLoggerWithVerbosity(logger.LowVerbosity)
}

type netpolError interface {
	IsFatal() bool
	IsSevere() bool
	Location() string
	Error() error
}

func errEntry(e netpolError) job.ErrEntry {
	txt := ""
	if e.Error() != nil {
		txt = e.Error().Error()
	}
	return job.ErrEntry{Severe: e.IsSevere(), Fatal: e.IsFatal(), Location: e.Location(), Text: txt}
}

func connStr(all bool, pp map[string][]string) string {
	if all {
		return "All Connections"
	}
	if len(pp) == 0 {
		return "No Connections"
	}
	keys := make([]string, 0, len(pp))
	for k := range pp {
		keys = append(keys, k)
	}
	sort.Strings(keys)
	parts := make([]string, 0, len(keys))
	for _, k := range keys {
		parts = append(parts, k+" "+strings.Join(pp[k], ","))
	}
	return strings.Join(parts, ";")
}

type portRange interface {
	Start() int64
	End() int64
}

// ppStr renders (all, protocol -> ranges) canonically. R is inferred (the concrete type
// lives in an internal package of the repository and cannot be named here).
func ppStr[R portRange](all bool, m map[corev1.Protocol][]R) string {
	pp := map[string][]string{}
	for proto, ranges := range m {
		rs := make([]string, 0, len(ranges))
		for _, r := range ranges {
			if r.Start() == r.End() {
				rs = append(rs, fmt.Sprint(r.Start()))
			} else {
				rs = append(rs, fmt.Sprintf("%d-%d", r.Start(), r.End()))
			}
		}
		pp[string(proto)] = rs
	}
	return connStr(all, pp)
}

func p2pConnStr(c connlist.Peer2PeerConnection) string {
	return ppStr(c.AllProtocolsAndPorts(), c.ProtocolsAndPorts())
}

func stepList(st *job.Step, ev *job.Event, keep bool) {
	opts := []connlist.ConnlistAnalyzerOption{connlist.WithLogger(quietLogger()), connlist.WithMuteErrsAndWarns()}
	if st.Loud {
		opts = []connlist.ConnlistAnalyzerOption{connlist.WithLogger(logger.NewDefaultLogger())}
	}
	if st.Fmt != "" {
		opts = append(opts, connlist.WithOutputFormat(st.Fmt))
	}
	if st.Exposure {
		opts = append(opts, connlist.WithExposureAnalysis())
	}
	if st.Focus != "" {
		opts = append(opts, connlist.WithFocusWorkload(st.Focus))
	}
	if st.Stop {
		opts = append(opts, connlist.WithStopOnError())
	}
	ca := connlist.NewConnlistAnalyzer(opts...)
	if st.Warm != "" {
		_, _, _ = ca.ConnlistFromDirPath(st.Warm) // what a long-lived caller does: one analyzer, one directory after the other
	}
	var conns []connlist.Peer2PeerConnection
	var peers []connlist.Peer
	var err error
	if st.API == "infos" {
		infos, errs := fsscanner.GetResourceInfosFromDirPath([]string{st.Dir}, true, st.Stop)
		for _, e := range errs {
			ev.Errors = append(ev.Errors, job.ErrEntry{Severe: true, Location: "scan", Text: e.Error()})
		}
		conns, peers, err = ca.ConnlistFromResourceInfos(infos)
	} else {
		conns, peers, err = ca.ConnlistFromDirPath(st.Dir)
	}
	for _, e := range ca.Errors() {
		ev.Errors = append(ev.Errors, errEntry(e))
	}
	if err != nil {
		ev.Err = err.Error()
		ev.NConns = len(conns)
		return
	}
	ev.NConns = len(conns)
	ev.Conns = make([]string, 0, len(conns))
	for _, c := range conns {
		ev.Conns = append(ev.Conns, c.Src().String()+"|"+c.Dst().String()+"|"+p2pConnStr(c))
	}
	sort.Strings(ev.Conns)
	ps := make([]string, 0, len(peers))
	for _, p := range peers {
		ps = append(ps, p.String())
	}
	ev.PeerSha = sha(strings.Join(ps, "\n"))
	sort.Strings(ps)
	ev.Peers = ps
	if st.Exposure {
		for _, ep := range ca.ExposedPeers() {
			ev.Exposed = append(ev.Exposed, exposedStr(ep)...)
		}
		sort.Strings(ev.Exposed)
	}
	out, err := ca.ConnectionsListToString(conns)
	if err != nil {
		ev.Err = "format: " + err.Error()
		return
	}
	ev.OK = true
	ev.HasOut = true
	ev.OutSha = sha(out)
	if keep {
		ev.Out = out
	}
}

func exposedStr(ep connlist.ExposedPeer) []string {
	p := ep.ExposedPeer().String()
	res := []string{fmt.Sprintf("%s|protected ingress=%t egress=%t", p, ep.IsProtectedByIngressNetpols(), ep.IsProtectedByEgressNetpols())}
	add := func(dir string, xs []connlist.XgressExposureData) {
		for _, x := range xs {
			ns, pod := x.NamespaceLabels(), x.PodLabels()
			c := x.PotentialConnectivity()
			res = append(res, fmt.Sprintf("%s|%s|cluster=%t|ns=%s|pod=%s|%s", p, dir, x.IsExposedToEntireCluster(),
				metav1.FormatLabelSelector(&ns), metav1.FormatLabelSelector(&pod), ppStr(c.IsAllConnections(), c.ProtocolsAndPortsMap())))
		}
	}
	add("ingress", ep.IngressExposure())
	add("egress", ep.EgressExposure())
	return res
}

func diffConnStr(a diff.AllowedConnectivity) string {
	if a == nil {
		return "-"
	}
	return ppStr(a.AllProtocolsAndPorts(), a.ProtocolsAndPorts())
}

func stepDiff(st *job.Step, ev *job.Event, keep bool) {
	opts := []diff.DiffAnalyzerOption{diff.WithLogger(quietLogger()), diff.WithArgNames("dir1", "dir2")}
	if st.Loud {
		opts = []diff.DiffAnalyzerOption{diff.WithLogger(logger.NewDefaultLogger()), diff.WithArgNames("dir1", "dir2")}
	}
	if st.Fmt != "" {
		opts = append(opts, diff.WithOutputFormat(st.Fmt))
	}
	if st.Stop {
		opts = append(opts, diff.WithStopOnError())
	}
	da := diff.NewDiffAnalyzer(opts...)
	d, err := da.ConnDiffFromDirPaths(st.Dir1, st.Dir2)
	for _, e := range da.Errors() {
		ev.Errors = append(ev.Errors, errEntry(e))
	}
	if err != nil {
		ev.Err = err.Error()
		return
	}
	if d == nil {
		ev.Err = "nil diff with nil error"
		return
	}
	ev.DiffEmpty = d.IsEmpty()
	rows := func(kind string, xs []diff.SrcDstDiff) {
		for _, x := range xs {
			ev.DiffRows = append(ev.DiffRows, fmt.Sprintf("%s|%s|%s|%s|%s|%t|%t", kind, x.Src().String(), x.Dst().String(),
				diffConnStr(x.Ref1Connectivity()), diffConnStr(x.Ref2Connectivity()), x.IsSrcNewOrRemoved(), x.IsDstNewOrRemoved()))
		}
	}
	rows("removed", d.RemovedConnections())
	rows("added", d.AddedConnections())
	rows("changed", d.ChangedConnections())
	ev.NConns = len(ev.DiffRows)
	sort.Strings(ev.DiffRows)
	out, err := da.ConnectivityDiffToString(d)
	if err != nil {
		ev.Err = "format: " + err.Error()
		return
	}
	ev.OK = true
	ev.HasOut = true
	ev.OutSha = sha(out)
	if keep {
		ev.Out = out
	}
}

// stepEvalAll mirrors what the eval command does with a directory (pkg/cli/evaluate.go: scan, parse,
// FilterObjectsList by the two pods, InsertObject in document order, CheckIfAllowed) for many queries.
// It exists for crash hunting only; witnesses are confirmed through the real eval command.
func stepEvalAll(st *job.Step, ev *job.Event) {
	infos, _ := fsscanner.GetResourceInfosFromDirPath([]string{st.Dir}, true, false)
	objs, _ := parser.ResourceInfoListToK8sObjectsList(infos, quietLogger(), true)
	for qi, q := range st.Queries {
		ev.QueryAt = qi
		var pods []types.NamespacedName
		for _, p := range []string{q[1], q[0]} {
			if i := strings.Index(p, "/"); i > 0 {
				pods = append(pods, types.NamespacedName{Namespace: p[:i], Name: p[i+1:]})
			}
		}
		pe := eval.NewPolicyEngine()
		failed := false
		for _, o := range parser.FilterObjectsList(objs, pods) {
			var err error
			switch o.Kind {
			case parser.Pod:
				err = pe.InsertObject(o.Pod)
			case parser.Namespace:
				err = pe.InsertObject(o.Namespace)
			case parser.NetworkPolicy:
				err = pe.InsertObject(o.NetworkPolicy)
			case parser.AdminNetworkPolicy:
				err = pe.InsertObject(o.AdminNetworkPolicy)
			case parser.BaselineAdminNetworkPolicy:
				err = pe.InsertObject(o.BaselineAdminNetworkPolicy)
			}
			if err != nil {
				failed = true
				break
			}
		}
		if failed {
			ev.Answers = append(ev.Answers, "error")
			continue
		}
		r, err := pe.CheckIfAllowed(q[0], q[1], q[2], q[3])
		if err != nil {
			ev.Answers = append(ev.Answers, "error")
		} else {
			ev.Answers = append(ev.Answers, fmt.Sprint(r))
		}
	}
	ev.QueryAt = 0
	ev.OK = true
}
