// mkoverlay builds the runtime overlay that puts Go's map randomness behind a seam.
//
// It copies a handful of files of $GOROOT/src/runtime into <outdir>, applies a fixed,
// checked textual patch (every substitution must match an exact number of times), adds
// verif_hook.go and writes <outdir>/overlay.json for `go build -overlay`.
// Nothing under GOROOT is modified. Any mismatch exits 2 (infrastructure trouble).
package main

import (
	"encoding/json"
	"fmt"
	"os"
	"os/exec"
	"path/filepath"
	"strings"
)

const wantGo = "go1.23"

type sub struct {
	old, new string
	n        int
}

func die(f string, a ...interface{}) {
	fmt.Fprintf(os.Stderr, "mkoverlay: "+f+"\n", a...)
	os.Exit(2)
}

const hook = `package runtime

import _ "unsafe"

// Seam for map randomness, installed by /verif/sim/rt (build overlay, never in GOROOT).
// When off, behaviour is exactly the stock runtime's.

var verifMapOn bool
var verifQuiet bool // set when VERIFMAPSEED is in the environment: see the retake patch in proc.go
var verifMapState uint64
var verifMapDraws uint64

func verifMapRand() uint64 {
	if !verifMapOn {
		return rand()
	}
	verifMapDraws++
	verifMapState += 0x9e3779b97f4a7c15
	z := verifMapState
	z = (z ^ (z >> 30)) * 0xbf58476d1ce4e5b9
	z = (z ^ (z >> 27)) * 0x94d049bb133111eb
	return z ^ (z >> 31)
}

//go:linkname verifMapSeed
func verifMapSeed(seed uint64, on bool) {
	verifMapState = seed
	verifMapOn = on
	verifMapDraws = 0
}

//go:linkname verifMapDrawCount
func verifMapDrawCount() uint64 {
	return verifMapDraws
}

func verifMapEnvInit() {
	s := gogetenv("VERIFMAPSEED")
	if s == "" {
		return
	}
	n, ok := atoi64(s)
	if !ok {
		throw("VERIFMAPSEED: not an integer")
	}
	verifQuiet = true
	verifMapSeed(uint64(n), true)
}
`

func main() {
	if len(os.Args) != 2 {
		die("usage: mkoverlay <outdir>")
	}
	out, err := filepath.Abs(os.Args[1])
	if err != nil {
		die("%v", err)
	}
	gobin := os.Getenv("VERIF_GO")
	if gobin == "" {
		gobin = "go"
	}
	b, err := exec.Command(gobin, "env", "GOROOT", "GOVERSION").Output()
	if err != nil {
		die("go env: %v", err)
	}
	f := strings.Fields(string(b))
	if len(f) != 2 {
		die("unexpected go env output %q", b)
	}
	goroot, gover := f[0], f[1]
	if !strings.HasPrefix(gover, wantGo+".") && gover != wantGo {
		die("toolchain is %s, the patch is written for %s.x", gover, wantGo)
	}
	rt := filepath.Join(goroot, "src", "runtime")
	patches := map[string][]sub{
		"map.go":         {{"rand()", "verifMapRand()", 9}},
		"map_fast32.go":  {{"rand()", "verifMapRand()", 1}},
		"map_fast64.go":  {{"rand()", "verifMapRand()", 1}},
		"map_faststr.go": {{"rand()", "verifMapRand()", 1}},
		// the background scavenger is never woken in simulation: a runnable background goroutine makes
		// sysmon hand over the P of a slow system call after all (see proc.go), at a load-dependent moment
		"mgcscavenge.go": {{"func (s *scavengerState) wake() {\n\tlock(&s.lock)\n", "func (s *scavengerState) wake() {\n\tif verifQuiet {\n\t\treturn\n\t}\n\tlock(&s.lock)\n", 1}},
		"rand.go": {{"func rand32() uint32 {\n\treturn uint32(rand())\n}",
			"func rand32() uint32 {\n\treturn uint32(verifMapRand())\n}", 1}},
		"alg.go": {
			{"hashkey[i] = uintptr(bootstrapRand())", "hashkey[i] = uintptr(0x9e3779b97f4a7c15*uint64(i+1) | 1)", 1},
			{"key[i] = bootstrapRand()", "key[i] = 0xd1b54a32d192ed03*uint64(i+1) | 1", 1},
		},
		"proc.go": {
			{"\tgoenvs()\n", "\tgoenvs()\n\tverifMapEnvInit()\n", 1},
			// sysmon neither preempts nor retakes the P of a system call while nothing else is runnable:
			// otherwise the moment a slow system call gets its P handed to a freshly allocated M (heap and
			// stack pages) depends on machine load and shifts every later heap address
			{"\t\tpd := &pp.sysmontick\n\t\ts := pp.status\n\t\tsysretake := false\n",
				"\t\tpd := &pp.sysmontick\n\t\ts := pp.status\n\t\tsysretake := false\n\t\tif verifQuiet && runqempty(pp) && sched.runqsize == 0 {\n\t\t\tcontinue\n\t\t}\n", 1},
			// a P handed off with no work does not get a spinning M of its own: it simply goes idle
			{"\tif sched.nmspinning.Load()+sched.npidle.Load() == 0 && sched.nmspinning.CompareAndSwap(0, 1) { // TODO: fast atomic\n",
				"\tif !verifQuiet && sched.nmspinning.Load()+sched.npidle.Load() == 0 && sched.nmspinning.CompareAndSwap(0, 1) { // TODO: fast atomic\n", 1},
		},
	}
	if err := os.MkdirAll(out, 0o755); err != nil {
		die("%v", err)
	}
	replace := map[string]string{}
	names := []string{"alg.go", "map.go", "map_fast32.go", "map_fast64.go", "map_faststr.go", "mgcscavenge.go", "proc.go", "rand.go"}
	for _, name := range names {
		src := filepath.Join(rt, name)
		data, err := os.ReadFile(src)
		if err != nil {
			die("%v", err)
		}
		s := string(data)
		for _, p := range patches[name] {
			if c := strings.Count(s, p.old); c != p.n {
				die("%s: %q matches %d times, want %d", name, p.old, c, p.n)
			}
			s = strings.ReplaceAll(s, p.old, p.new)
		}
		dst := filepath.Join(out, name)
		if err := writeIfChanged(dst, []byte(s)); err != nil {
			die("%v", err)
		}
		replace[src] = dst
	}
	hk := filepath.Join(out, "verif_hook.go")
	if err := writeIfChanged(hk, []byte(hook)); err != nil {
		die("%v", err)
	}
	replace[filepath.Join(rt, "verif_hook.go")] = hk
	js, _ := json.MarshalIndent(map[string]interface{}{"Replace": replace}, "", " ")
	if err := writeIfChanged(filepath.Join(out, "overlay.json"), js); err != nil {
		die("%v", err)
	}
}

func writeIfChanged(path string, data []byte) error {
	if old, err := os.ReadFile(path); err == nil && string(old) == string(data) {
		return nil
	}
	return os.WriteFile(path, data, 0o644)
}
