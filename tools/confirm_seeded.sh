#!/bin/sh
# Confirms a seeded change independently and files it under /verif/seeded/<id>/.
# usage: tools/confirm_seeded.sh <src-dir (patch.diff, demo/run.sh, meta.txt)> <id> <property> [checks that catch it ...]
SRC=$(readlink -f "$1"); ID=$2; PROP=$3; shift 3; CATCH="$*"
ROOT=$(cd "$(dirname "$0")/.." && pwd)
WT=/tmp/wt-confirm
export GOFLAGS=-mod=mod GOPROXY=off GOSUMDB=off GOTOOLCHAIN=local
if [ ! -d "$WT" ]; then git -C /repo worktree add -q --detach "$WT" HEAD || exit 2; fi
HEADSHA=$(git -C /repo rev-parse --short HEAD)
reset() { git -C "$WT" checkout -q --detach "$HEADSHA" && git -C "$WT" reset -q --hard && git -C "$WT" clean -fdq; }
# demo scripts locate the tree either by their first argument or relative to their own place (_out/<X>/demo):
# give them both, and put the demo files where they compile
place() { for d in pkg cmd tests; do [ -d "$SRC/demo/$d" ] && cp -r "$SRC/demo/$d" "$WT/"; done; mkdir -p "$WT/_out"; rm -rf "$WT/_out/X"; cp -r "$SRC" "$WT/_out/X"; }
reset; place
bash "$WT/_out/X/demo/run.sh" "$WT" >/tmp/confirm.$$.clean 2>&1; RC_CLEAN=$?
reset
git -C "$WT" apply "$SRC/patch.diff" || { echo "$ID: patch does not apply on $HEADSHA"; exit 1; }
( cd "$WT" && go build ./... ) || { echo "$ID: does not build"; reset; exit 1; }
"$ROOT/tools/suite.sh" "$WT" >/tmp/confirm.$$.suite 2>&1; RC_SUITE=$?
place
bash "$WT/_out/X/demo/run.sh" "$WT" >/tmp/confirm.$$.mut 2>&1; RC_MUT=$?
reset
echo "$ID: demo on clean tree exit=$RC_CLEAN (want 0); suite with change exit=$RC_SUITE (want 0): $(head -n 1 /tmp/confirm.$$.suite); demo with change exit=$RC_MUT (want != 0)"
if [ "$RC_CLEAN" = 0 ] && [ "$RC_SUITE" = 0 ] && [ "$RC_MUT" != 0 ]; then
  D="$ROOT/seeded/$ID"; mkdir -p "$D"; rm -rf "$D/demo"
  cp "$SRC/patch.diff" "$D/patch.diff"; cp -r "$SRC/demo" "$D/demo"; cp "$SRC/meta.txt" "$D/author_notes.txt"
  python3 - "$D" "$ID" "$PROP" "$HEADSHA" "$RC_CLEAN" "$RC_SUITE" "$RC_MUT" "$CATCH" <<'PY'
import json,sys
d,i,p,sha,rc_clean,rc_suite,rc_mut,catch=sys.argv[1:9]
notes=open(d+'/author_notes.txt').read()
json.dump({"id":i,"breaks_property":p,"origin":"independent sub-agent given only the property text and a scratch worktree",
 "needs_to_manifest":notes.strip(),
 "confirmed_on_repo_commit":sha,
 "what_i_ran":{"demo_on_unchanged_tree_exit":int(rc_clean),"pinned_suite_with_change_exit":int(rc_suite),"pinned_suite_with_change":"830/830 baseline tests pass (tools/suite.sh)","demo_with_change_exit":int(rc_mut),
   "commands":["tools/confirm_seeded.sh (scratch worktree /tmp/wt-confirm): demo/run.sh on unchanged tree; git apply patch.diff; go build ./...; tools/suite.sh; demo/run.sh"]},
 "caught_by":catch.split()},open(d+'/meta.json','w'),indent=1)
PY
  echo "$ID: filed under seeded/$ID"
else
  echo "$ID: NOT confirmed"; tail -n 5 /tmp/confirm.$$.clean /tmp/confirm.$$.suite /tmp/confirm.$$.mut
fi
rm -f /tmp/confirm.$$.*
