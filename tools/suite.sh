#!/bin/sh
# Runs the repository's pinned test suite (guard OFF) in the given tree (default /repo) and
# compares the set of passing tests with BASELINE.json's stable_pass list.
# usage: tools/suite.sh [dir]     exit 0 iff every baseline test passes
DIR=${1:-/repo}
export GOFLAGS=-mod=mod GOPROXY=off GOSUMDB=off GOTOOLCHAIN=local
OUT=$(mktemp)
( cd "$DIR" && go test -mod=mod -json -vet=off -count=1 -timeout 25m ./... ) > "$OUT" 2>/dev/null
python3 - "$OUT" <<'PY'
import json,sys
passed=set(); failed=set()
for l in open(sys.argv[1]):
    try: e=json.loads(l)
    except Exception: continue
    if e.get('Test') and e.get('Action') in('pass','fail'):
        (passed if e['Action']=='pass' else failed).add(e['Package']+'::'+e['Test'])
b=json.load(open('/root/.vp/BASELINE.json'))
base=set(b['stable_pass'])
missing=sorted(base-passed)
print(f"suite: passed={len(passed)} failed={len(failed)} baseline={len(base)} baseline_missing={len(missing)}")
for m in missing[:20]: print("  MISSING", m)
newfail=sorted(failed-set(b['always_fail']))
for m in newfail[:20]: print("  NEWFAIL", m)
sys.exit(1 if missing else 0)
PY
RC=$?
rm -f "$OUT" "$DIR/test_outputs/connlist/actual_ipblockstest_4_connlist_output.txt"
exit $RC
