#!/bin/sh
# Runs every seeded change under /verif/seeded against the check of the property it breaks (quick tier, or $1)
# and writes seeded/RESULTS.txt. Uses tools/try_mutant.sh (scratch worktree + mirror; /repo and /verif untouched).
ROOT=$(cd "$(dirname "$0")/.." && pwd)
TIER=${1:-quick}
OUT="$ROOT/seeded/RESULTS.txt"
: > "$OUT.tmp"
for d in "$ROOT"/seeded/*/; do
  [ -f "$d/patch.diff" ] || continue
  ID=$(basename "$d"); PROP=$(python3 -c "import json,sys; print(json.load(open(sys.argv[1]))['breaks_property'])" "$d/meta.json")
  R=$("$ROOT/tools/try_mutant.sh" "$d/patch.diff" "$TIER" "$PROP" 2>&1 | grep -v '^WARNING' | head -n 2 | tr '\n' ' ')
  case "$R" in *"exit=1 "*) V=CAUGHT ;; *"exit=0 "*) V=MISSED ;; *) V=INFRA ;; esac
  printf '%-34s %s %-7s %s\n' "$ID" "$PROP" "$V" "$(printf '%s' "$R" | cut -c1-330)" | tee -a "$OUT.tmp"
done
mv "$OUT.tmp" "$OUT"
