#!/bin/sh
# Tries a patch against the checks WITHOUT touching /repo or /verif: the patch is applied to a scratch
# worktree of /repo's HEAD (/tmp/wt-try), the committed+working /verif is mirrored to /tmp/verif-try, and the
# checks run there with VERIF_REPO pointing at the scratch worktree. Prints one line per check.
# usage: tools/try_mutant.sh <patch.diff> [tier] [property ...]
PATCH=$(readlink -f "$1"); shift
TIER=${1:-quick}; [ $# -gt 0 ] && shift
PROPS=${*:-C08 C12 C13 C15 C18 C19}
SRC=$(cd "$(dirname "$0")/.." && pwd)
TRY=${VERIF_TRY:-/tmp/verif-try}; WT=${VERIF_TRY_WT:-/tmp/wt-try}
mkdir -p "$TRY"
rsync -a --delete --exclude bin --exclude replays --exclude evidence --exclude .git "$SRC"/ "$TRY"/
mkdir -p "$TRY/replays" "$TRY/evidence"; rm -f "$TRY"/replays/*.json
if [ ! -d "$WT" ]; then git -C /repo worktree add -q --detach "$WT" HEAD || exit 2; fi
git -C "$WT" checkout -q --detach "$(git -C /repo rev-parse HEAD)" && git -C "$WT" reset -q --hard && git -C "$WT" clean -fdq
if [ "$PATCH" != "/dev/null" ]; then git -C "$WT" apply "$PATCH" || { echo "patch does not apply"; exit 2; }; fi
for p in $PROPS; do
  OUT=$(VERIF_REPO="$WT" "$TRY/check" "$p" "$TIER" 2>&1); RC=$?
  V=$(printf '%s\n' "$OUT" | grep -c '^VIOLATION')
  printf '%s tier=%s exit=%d violations=%s | %s\n' "$p" "$TIER" "$RC" "$V" "$(printf '%s\n' "$OUT" | grep -A2 '^VIOLATION' | sed -n '3p' | cut -c1-300)"
  printf "    %s\n" "$(printf "%s\n" "$OUT" | tail -n 1 | cut -c1-300)"
  [ "$RC" = 2 ] && printf '%s\n' "$OUT" | tail -n 5
done
git -C "$WT" reset -q --hard
